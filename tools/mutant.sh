#!/bin/bash
# Applies a seeded change to /repo, runs the given checks (default: the property named in
# meta.json) at the quick tier, prints which fired, and restores /repo.
#   tools/mutant.sh seeded/<id> [tier] [check ids...]
cd "$(dirname "$0")/.."
DIR="$1"; TIER="${2:-quick}"; shift; shift
[ -f "$DIR/patch.diff" ] || { echo "no $DIR/patch.diff"; exit 2; }
[ -z "$(git -C /repo status --porcelain)" ] || { echo "/repo is not clean"; exit 2; }
IDS="$@"
[ -z "$IDS" ] && IDS=$(python3 -c "import json,sys; print(json.load(open('$DIR/meta.json'))['property'])")
git -C /repo apply "$PWD/$DIR/patch.diff" || { echo "patch does not apply"; exit 2; }
trap 'git -C /repo checkout -- . ; git -C /repo clean -fdq' EXIT
( cd /repo && GOFLAGS=-mod=mod GOPROXY=off go build ./... ) || { echo "RESULT $DIR build-failed"; exit 2; }
for id in $IDS; do
  out=$(./check $id $TIER 2>&1); rc=$?
  sig=$(echo "$out" | grep -m3 "signature:" | sed 's/.*signature: //' | tr '\n' ';' | cut -c1-300)
  echo "RESULT $DIR $id rc=$rc $sig"
done
