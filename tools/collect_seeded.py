#!/usr/bin/env python3
"""Collects the sub-agents' deliverables from /tmp/wt-CNN/_out into /verif/seeded/<id>/ and
confirms each one in a scratch worktree of /repo: with the patch the repository builds and its
tests pass; the demonstration fails with the patch and passes without it."""
import json, os, re, shutil, subprocess, sys, glob
ENV = dict(os.environ, GOFLAGS="-mod=mod", GOPROXY="off", GOTOOLCHAIN="local")
SCR = "/tmp/confirm-wt"
def sh(cmd, cwd, timeout=1500):
    p = subprocess.run(cmd, cwd=cwd, shell=True, env=ENV, stdout=subprocess.PIPE, stderr=subprocess.STDOUT, timeout=timeout)
    return p.returncode, p.stdout.decode(errors="replace")
def pkgdir(demo_path, meta):
    for k in ("demo_package_dir", "demo_copy_into", "copy_into", "demo_dir", "package_dir"):
        if k in meta and isinstance(meta[k], str): return meta[k].strip("/").replace("./", "")
    src = open(demo_path).read()
    m = re.search(r"^package (\w+)", src, re.M)
    name = m.group(1).replace("_test", "")
    table = {"type1":"tokens/type1","type2":"tokens/type2","type3":"tokens/type3","type5":"tokens/type5","batched":"tokens/batched","tokens":"tokens","ecdsa":"ecdsa","ed25519":"ed25519","quicwire":"quicwire","util":"util"}
    return table[name]
def main():
    args = sys.argv[1:]
    src, offset = "/tmp/wt-C", 0
    if len(args) >= 2 and args[0] == "--src":
        src, offset, args = args[1], int(args[2]), args[3:]
    only = args
    subprocess.run("git -C /repo worktree remove --force %s 2>/dev/null; git -C /repo worktree add -q --detach %s HEAD" % (SCR, SCR), shell=True)
    results = []
    for wt in sorted(glob.glob(src + "*/_out")):
        prop = "C" + wt.split("/")[2].split("-C")[1]
        for k in (1, 2):
            sid = "%s-%d" % (prop, k + offset)
            if only and sid not in only: continue
            patch = "%s/patch%d.diff" % (wt, k)
            if not os.path.exists(patch): continue
            meta = json.load(open("%s/meta%d.json" % (wt, k)))
            demo_t = "%s/demo%d_test.go" % (wt, k); demo_m = "%s/demo%d/main.go" % (wt, k)
            sh("git checkout -q -- . && git clean -fdq", SCR)
            rc, out = sh("git apply %s" % patch, SCR)
            if rc: results.append((sid, "patch does not apply")); continue
            rc, out = sh("go build ./... && go test -count=1 ./... 2>&1 | tail -15", SCR)
            suite_ok = rc == 0 and "FAIL" not in out
            if os.path.exists(demo_t):
                d = pkgdir(demo_t, meta); dst = "%s/%s/zz_demo_test.go" % (SCR, d)
                race = "-race " if prop == "C17" or "race" in json.dumps(meta).lower() and prop in ("C17",) else ""
                run = "go test %s-count=1 -run 'Demo|C[0-9][0-9]' ./%s/ 2>&1 | tail -30" % (race, d)
                shutil.copy(demo_t, dst)
                rc_with, out_with = sh(run, SCR)
                fail_with = ("FAIL" in out_with) or ("DATA RACE" in out_with)
                sh("git checkout -q -- .", SCR); shutil.copy(demo_t, dst)
                rc_wo, out_wo = sh(run, SCR)
                pass_wo = ("FAIL" not in out_wo) and ("ok" in out_wo) and ("DATA RACE" not in out_wo)
                os.remove(dst); demo_rel = "demo_test.go"; demo_src = demo_t; how = run.replace(" 2>&1 | tail -30", "") + "   (demo copied to %s/)" % d
            else:
                os.makedirs(SCR + "/_demo", exist_ok=True); shutil.copy(demo_m, SCR + "/_demo/main.go")
                run = "go run ./_demo 2>&1 | tail -20; exit ${PIPESTATUS[0]}"
                rc_with, out_with = sh("bash -c '%s'" % run, SCR); fail_with = rc_with != 0
                sh("git checkout -q -- .", SCR)
                rc_wo, out_wo = sh("bash -c '%s'" % run, SCR); pass_wo = rc_wo == 0
                shutil.rmtree(SCR + "/_demo"); demo_rel = "demo/main.go"; demo_src = demo_m; how = "go run ./demo (from the repository root)"; d = "_demo"
            ok = suite_ok and fail_with and pass_wo
            results.append((sid, "confirmed" if ok else "NOT confirmed: suite_ok=%s fail_with=%s pass_without=%s" % (suite_ok, fail_with, pass_wo)))
            if not ok:
                print(sid, "suite:", out[-400:], "\nWITH:", out_with[-600:], "\nWITHOUT:", out_wo[-600:])
                continue
            dst = "/verif/seeded/%s" % sid
            os.makedirs(os.path.dirname(dst + "/" + demo_rel), exist_ok=True)
            shutil.copy(patch, dst + "/patch.diff"); shutil.copy(demo_src, dst + "/" + demo_rel)
            m2 = {"id": sid, "property": prop, "summary": meta.get("summary", ""), "needs_to_manifest": meta.get("needs_to_manifest", ""),
                  "files_touched": meta.get("files_touched", []), "demo_package_dir": d, "author": "independent sub-agent given only the property text and a scratch worktree",
                  "confirmed": {"with_patch": "go build ./... ok; go test ./... passes (166 tests); demonstration FAILS", "without_patch": "demonstration passes", "demo_command": how},
                  "agent_verified": meta.get("verified", "")}
            json.dump(m2, open(dst + "/meta.json", "w"), indent=1)
    sh("git checkout -q -- . && git clean -fdq", SCR)
    subprocess.run("git -C /repo worktree remove --force %s" % SCR, shell=True)
    for r in results: print(*r)
main()
