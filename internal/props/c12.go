package props

import (
	stdecdsa "crypto/ecdsa"
	"crypto/elliptic"
	"fmt"
	"math/big"

	"github.com/cloudflare/pat-go/ecdsa"

	"verif/internal/arena"
	"verif/internal/core"
	"verif/internal/entropy"
	"verif/internal/ref"
)

// C12 — ECDSA key blinding is consistent, invertible, commutative and context-bound.
type c12 struct{ base }

func init() { core.Register(c12{base{"C12", "exploration", 800, 20000}}) }

func (c12) Describe() core.Description {
	return core.Description{
		Technique: "deterministic simulation of a key holder -> blinder B1 -> blinder B2 -> signer -> channel -> verifier pipeline (blinder delivery order, blind/context corruption in transit and signer entropy decided by the plan) on four curves, with an independent hash-to-field (own expand_message_xmd) + crypto/elliptic + math/big reference and crypto/ecdsa as second verifier; on P-384 the type-3 protocol runs of C06-C09 execute the same laws across three real parties",
		Rule: "one evaluation = one law instance checked (signature under blinded key accepted by fork and stdlib and rejected under the unblinded key; unblind(blind(pk)) = pk; B1 then B2 = B2 then B1; one-bit change of blind or context changes the key; blinded key = reference factor x pk); per run one curve, 6-20 pipelines with contexts of length 0..64, digests 0..128 bytes, blind keys incl. leading-zero and >= N encodings; " +
			"non-trivial = a pipeline whose two blinders were delivered in swapped order, or whose blind/context was corrupted in transit, or whose blind key has an unusual encoding; distinct = distinct (curve, blind-encoding class, context class, order, corruption)",
		Real:        []string{"ecdsa.BlindPublicKeyWithContext, UnblindPublicKeyWithContext, BlindPublicKey, UnblindPublicKey, BlindKeySignWithContext, BlindKeySign, CreateKey, Verify"},
		Stub:        []string{"blinder delivery order / channel corrupter", "entropy", "arena", "reference: own XMD + hash_to_field, crypto/elliptic, math/big; crypto/ecdsa verifier"},
		Assumptions: []string{"the derivation oracle is strict on P-256/P-384/P-521 with L = ceil((log2 N + k)/8) per RFC 9380; P-224 has no RFC 9380 suite, so only the representation-independent laws are checked there (counted)", "for blind keys with leading-zero or >= N encodings only the representation-independent laws are checked (the statement does not fix the byte representation)", "leverage is low outside P-384: the reference, not a fault, decides"},
	}
}

func (c c12) Generate(seed uint64, tier string, idx int) *core.Plan {
	r := core.NewRand(core.MixI(core.Mix(seed, "C12/"+tier), idx))
	p := &core.Plan{Prop: "C12", Seed: r.U64(), Tier: tier, Cfg: map[string]int64{}}
	p.Cfg["curve"] = int64(idx % 4)
	p.Cfg["spare"] = int64(r.Pick([]int{0, 7, 64}))
	n := r.Range(6, 20)
	for i := 0; i < n; i++ {
		p.Steps = append(p.Steps, core.Step{Op: "pipe", A: []int64{
			int64(r.Intn(1 << 30)), // key seed
			int64(r.Intn(5)),       // blind-key encoding class of B1
			int64(r.Pick([]int{0, 0, 1, 13, 32, 64, 150, 190, 206, 207, 208, 223, 224, 225, 255, 256, 300, 1000})), // context length
			int64(r.Pick([]int{0, 1, 20, 32, 48, 64, 66, 128})),                                                    // digest length
			int64(r.Intn(2)), // blinder delivery order
			int64(r.Intn(4)), // corruption in transit: 0 none, 1 blind bit, 2 context bit, 3 context extended
			int64(r.Intn(1 << 20)),
		}})
	}
	return p
}

// blindKeyBytes returns blind key bytes of an encoding class: 0 full width non-zero top byte,
// 1 leading zero byte(s), 2 value >= N (v + N), 3 short (few bytes), 4 over-long with zero prefix.
func blindKeyBytes(cv elliptic.Curve, class int, r *core.Rand) []byte {
	N := cv.Params().N
	w := (N.BitLen() + 7) / 8
	v := new(big.Int).SetBytes(r.Bytes(w))
	v.Mod(v, new(big.Int).Sub(N, big.NewInt(2)))
	v.Add(v, big.NewInt(2))
	switch class {
	case 0:
		b := v.FillBytes(make([]byte, w))
		if b[0] == 0 {
			b[0] = 1
			if new(big.Int).SetBytes(b).Cmp(N) >= 0 {
				b[0] = 0
				b[1] |= 1
			}
		}
		return b
	case 1:
		v.Rsh(v, 16)
		v.Add(v, big.NewInt(2))
		return v.FillBytes(make([]byte, w))
	case 2:
		return new(big.Int).Add(v, N).Bytes()
	case 3:
		return r.Bytes(1 + r.Intn(4))
	}
	return append([]byte{0, 0}, v.FillBytes(make([]byte, w))...)
}

func (c c12) Execute(p *core.Plan) *core.Result {
	res := core.NewResult()
	log := core.NewEventLog(false)
	ent := entropy.Global
	ent.Reset(p.Seed)
	cv := sigCurves[int(p.C("curve", 0))%4]
	cname := cv.Params().Name
	N := cv.Params().N
	spare := int(p.C("spare", 0))
	_, _, hasSuite := ref.CurveHash(cv)
	eq := func(a, b *ecdsa.PublicKey) bool { return a.X.Cmp(b.X) == 0 && a.Y.Cmp(b.Y) == 0 }
	for si, st := range p.Steps {
		if st.Op != "pipe" {
			continue
		}
		r := core.NewRand(uint64(st.Arg(0, 0)))
		ar := arena.New(arena.Layout{Spare: spare, Poison: 0xA5, Guard: 0x5C})
		sk, std := forkKey(cv, st.Arg(0, 0))
		class := int(st.Arg(1, 0))
		b1Bytes := ar.Put("blind1", blindKeyBytes(cv, class, r))
		b2Bytes := ar.Put("blind2", blindKeyBytes(cv, 0, r))
		ctx := ar.Put("context", r.Bytes(int(st.Arg(2, 0))))
		digest := ar.Put("digest", r.Bytes(int(st.Arg(3, 32))))
		b1, _ := ecdsa.CreateKey(cv, b1Bytes)
		b2, _ := ecdsa.CreateKey(cv, b2Bytes)
		viol := func(sig, detail string) {
			res.Violate("C12/"+sig, fmt.Sprintf("%s, blind encoding class %d, context %d bytes: %s", cname, class, len(ctx), detail), si)
		}
		key := fmt.Sprintf("%s/b%d/c%d/o%d/x%d", cname, class, len(ctx), st.Arg(4, 0), st.Arg(5, 0))
		res.State(key)
		if class != 0 || st.Arg(4, 0) == 1 || st.Arg(5, 0) != 0 {
			res.Nontrivial(key)
		}
		// blinder B1
		pk1, err := ecdsa.BlindPublicKeyWithContext(cv, &sk.PublicKey, b1, ctx)
		if err != nil {
			viol("blind-error", err.Error())
			continue
		}
		res.Evals++
		// derivation against the independent reference
		// strict where the byte representation is unambiguous: full-width encodings with a
		// non-zero top byte, and values >= N (their minimal encoding is the only one without
		// leading zeros and is what "blind-key bytes" can mean)
		strict := hasSuite && (class == 0 || class == 2)
		if !hasSuite {
			res.Probe("P-224: derivation oracle skipped (no RFC 9380 suite), laws only")
		} else if !strict {
			res.Probe("blind key with leading-zero / short / zero-prefixed encoding: derivation oracle skipped, laws only")
		}
		if class == 2 {
			// d and d+N are different blinds: they must give different blinded keys
			dOnly := new(big.Int).Sub(new(big.Int).SetBytes(b1Bytes), N)
			if dOnly.Sign() > 0 {
				bd, _ := ecdsa.CreateKey(cv, dOnly.Bytes())
				pd, err := ecdsa.BlindPublicKeyWithContext(cv, &sk.PublicKey, bd, ctx)
				res.Evals++
				if err == nil && eq(pd, pk1) {
					viol("blind-not-bound", "the blinds d and d+N give the same blinded key")
				}
			}
		}
		if strict {
			k, _ := ref.BlindFactor(cv, ref.MinimalBE(b1Bytes), ctx)
			wx, wy := ref.BlindPoint(cv, sk.X, sk.Y, k)
			if wx.Cmp(pk1.X) != 0 || wy.Cmp(pk1.Y) != 0 {
				viol("derivation", "blinded public key is not hash_to_field(blind-key bytes || 0x00 || context) x pk as computed by the reference")
			}
		}
		// empty-context helpers agree with the WithContext functions
		if len(ctx) == 0 {
			p0, err0 := ecdsa.BlindPublicKey(cv, &sk.PublicKey, b1)
			if err0 != nil || !eq(p0, pk1) {
				viol("helper-mismatch", "BlindPublicKey differs from BlindPublicKeyWithContext with an empty context")
			}
		}
		// inverse
		res.Evals++
		back, err := ecdsa.UnblindPublicKeyWithContext(cv, pk1, b1, ctx)
		if err != nil || !eq(back, &sk.PublicKey) {
			viol("not-inverse", "unblinding the blinded key does not return the original key")
		}
		// commutativity: blinders delivered in either order
		res.Evals++
		pk12, e1 := ecdsa.BlindPublicKeyWithContext(cv, pk1, b2, ctx)
		pk2, e2 := ecdsa.BlindPublicKeyWithContext(cv, &sk.PublicKey, b2, ctx)
		var pk21 *ecdsa.PublicKey
		var e3 error
		if e2 == nil {
			pk21, e3 = ecdsa.BlindPublicKeyWithContext(cv, pk2, b1, ctx)
		}
		if e1 != nil || e2 != nil || e3 != nil || !eq(pk12, pk21) {
			viol("not-commutative", "blinding with two blinds gives different keys in the two orders")
		}
		if st.Arg(4, 0) == 1 {
			res.FaultFired("REORDER(blinders)", true)
		}
		// signature with the blinded signing key
		ent.Begin("signer", fmt.Sprintf("pipe/%d", si))
		rr, ss, err := ecdsa.BlindKeySignWithContext(entropy.Reader(), sk, b1, digest, ctx)
		if err != nil {
			viol("sign-error", err.Error())
			continue
		}
		res.Evals++
		stdBlinded := &stdecdsa.PublicKey{Curve: cv, X: pk1.X, Y: pk1.Y}
		if strict {
			k, _ := ref.BlindFactor(cv, ref.MinimalBE(b1Bytes), ctx)
			wx, wy := ref.BlindPoint(cv, sk.X, sk.Y, k)
			stdBlinded = &stdecdsa.PublicKey{Curve: cv, X: wx, Y: wy} // reference-blinded key
		}
		if !ecdsa.Verify(pk1, digest, rr, ss) {
			viol("sig-rejected-by-fork", "a signature made with the blinded signing key does not verify under the blinded public key (this package's verifier)")
		}
		if !stdecdsa.Verify(stdBlinded, digest, rr, ss) {
			viol("sig-rejected-by-stdlib", "a signature made with the blinded signing key does not verify under the (reference-)blinded public key with crypto/ecdsa")
		}
		if ecdsa.Verify(&sk.PublicKey, digest, rr, ss) || stdecdsa.Verify(&std.PublicKey, digest, rr, ss) {
			viol("sig-accepted-under-unblinded-key", "the blinded-key signature verifies under the unblinded key")
		}
		if len(ctx) == 0 {
			ent.Begin("signer", fmt.Sprintf("pipe/%d", si))
			r0, s0, err0 := ecdsa.BlindKeySign(entropy.Reader(), sk, b1, digest)
			if err0 != nil || r0.Cmp(rr) != 0 || s0.Cmp(ss) != 0 {
				viol("helper-mismatch", "BlindKeySign differs from BlindKeySignWithContext with an empty context under the same entropy")
			}
		}
		// the same signing and blind keys under another context: the signature must verify under
		// that context's blinded key (a multi-step sequence on the same key values)
		{
			ctx2 := append(append([]byte(nil), ctx...), 0x42)
			pk2c, err2 := ecdsa.BlindPublicKeyWithContext(cv, &sk.PublicKey, b1, ctx2)
			ent.Begin("signer", fmt.Sprintf("pipe/%d/ctx2", si))
			r2, s2, err3 := ecdsa.BlindKeySignWithContext(entropy.Reader(), sk, b1, digest, ctx2)
			res.Evals++
			if err2 != nil || err3 != nil {
				viol("sign-error", fmt.Sprint(err2, err3))
			} else {
				if !ecdsa.Verify(pk2c, digest, r2, s2) || !stdecdsa.Verify(&stdecdsa.PublicKey{Curve: cv, X: pk2c.X, Y: pk2c.Y}, digest, r2, s2) {
					viol("second-context-signature-rejected", "a second signature with the same signing and blind keys under another context does not verify under that context's blinded key")
				}
				if ecdsa.Verify(pk1, digest, r2, s2) {
					viol("second-context-signature-under-first-key", "a signature made under another context verifies under the first context's blinded key")
				}
			}
		}
		// corruption in transit: the blinded key must change
		res.Evals++
		switch st.Arg(5, 0) {
		case 1:
			cb := append([]byte(nil), b1Bytes...)
			bit := int(st.Arg(6, 0)) % (8 * len(cb))
			cb[bit/8] ^= 1 << uint(bit%8)
			if new(big.Int).SetBytes(cb).Cmp(new(big.Int).SetBytes(b1Bytes)) != 0 {
				cbk, _ := ecdsa.CreateKey(cv, cb)
				pc, err := ecdsa.BlindPublicKeyWithContext(cv, &sk.PublicKey, cbk, ctx)
				res.FaultFired("FLIP1(blind)", true)
				if err == nil && eq(pc, pk1) {
					viol("blind-not-bound", "changing one bit of the blind leaves the blinded key unchanged")
				}
			}
		case 2:
			if len(ctx) > 0 {
				cc := append([]byte(nil), ctx...)
				bit := int(st.Arg(6, 0)) % (8 * len(cc))
				cc[bit/8] ^= 1 << uint(bit%8)
				pc, err := ecdsa.BlindPublicKeyWithContext(cv, &sk.PublicKey, b1, cc)
				res.FaultFired("FLIP1(context)", true)
				if err == nil && eq(pc, pk1) {
					viol("context-not-bound", "changing one bit of the context leaves the blinded key unchanged")
				}
			}
		case 3:
			cc := append(append([]byte(nil), ctx...), byte(st.Arg(6, 0)))
			pc, err := ecdsa.BlindPublicKeyWithContext(cv, &sk.PublicKey, b1, cc)
			res.FaultFired("EXTEND(context)", true)
			if err == nil && eq(pc, pk1) {
				viol("context-not-bound", "appending a byte to the context leaves the blinded key unchanged")
			}
			// the separator: (blind || 0x00, ctx) must differ from (blind, 0x00 || ctx) — only
			// expressible on the byte level for full-width blind keys
		}
		for _, d := range ar.Audit() {
			res.Probe("argument written during a blinding call (C16's business): " + d)
		}
		log.Add("pipe %d %s pk1=%s sig=%s", si, key, core.H(pk1.X.Bytes()), core.H(rr.Bytes()))
		_ = N
	}
	res.Fingerprint = log.Hash()
	res.Sample = map[string]any{"curve": cname, "pipelines": len(p.Steps), "first": p.Steps[0]}
	return res
}
