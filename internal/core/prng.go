// Package core holds the pieces every engine shares: the PRNG, the plan format, results,
// evidence, known findings, the delta-debugging minimiser and the driver/worker protocol.
package core

import (
	"crypto/sha256"
	"encoding/binary"
)

// Rand is a splitmix64 generator. It is the only source of choices in plan generation.
type Rand struct{ s uint64 }

func NewRand(seed uint64) *Rand { return &Rand{s: seed} }

// Mix derives a sub-seed from a seed and a label, so that adding a draw in one component
// does not shift another.
func Mix(seed uint64, label string) uint64 {
	h := sha256.New()
	var b [8]byte
	binary.BigEndian.PutUint64(b[:], seed)
	h.Write(b[:])
	h.Write([]byte(label))
	return binary.BigEndian.Uint64(h.Sum(nil)[:8])
}

func MixI(seed uint64, i int) uint64 {
	z := seed + 0x9e3779b97f4a7c15*uint64(i+1)
	z = (z ^ (z >> 30)) * 0xbf58476d1ce4e5b9
	z = (z ^ (z >> 27)) * 0x94d049bb133111eb
	return z ^ (z >> 31)
}

func (r *Rand) Sub(label string) *Rand { return NewRand(Mix(r.s, label)) }

func (r *Rand) U64() uint64 {
	r.s += 0x9e3779b97f4a7c15
	z := r.s
	z = (z ^ (z >> 30)) * 0xbf58476d1ce4e5b9
	z = (z ^ (z >> 27)) * 0x94d049bb133111eb
	return z ^ (z >> 31)
}

// Intn returns a value in [0,n). n<=0 returns 0.
func (r *Rand) Intn(n int) int {
	if n <= 0 {
		return 0
	}
	return int(r.U64() % uint64(n))
}

// Range returns a value in [lo,hi].
func (r *Rand) Range(lo, hi int) int {
	if hi <= lo {
		return lo
	}
	return lo + r.Intn(hi-lo+1)
}

func (r *Rand) Bool(pct int) bool { return r.Intn(100) < pct }

func (r *Rand) Bytes(n int) []byte {
	b := make([]byte, n)
	for i := 0; i < n; i += 8 {
		var t [8]byte
		binary.LittleEndian.PutUint64(t[:], r.U64())
		copy(b[i:], t[:])
	}
	return b
}

func (r *Rand) Pick(xs []int) int { return xs[r.Intn(len(xs))] }

func (r *Rand) PickS(xs []string) string { return xs[r.Intn(len(xs))] }

// Perm returns a permutation of 0..n-1.
func (r *Rand) Perm(n int) []int {
	p := make([]int, n)
	for i := range p {
		p[i] = i
	}
	for i := n - 1; i > 0; i-- {
		j := r.Intn(i + 1)
		p[i], p[j] = p[j], p[i]
	}
	return p
}
