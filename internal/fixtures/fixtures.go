// Package fixtures holds the pool of pre-generated RSA-2048 keys (the wire format fixes
// 256-byte moduli; generating keys at run time would dominate the cost of every run).
package fixtures

import (
	"crypto/rsa"
	"crypto/x509"
	"embed"
	"encoding/pem"
	"fmt"
)

//go:embed *.pem
var files embed.FS

const NumRSA = 8

var cache [NumRSA]*rsa.PrivateKey

// RSA returns a fresh copy-by-parse of fixture key i (mod NumRSA). Parsing anew gives every
// run its own key object, so that no lazily computed state is shared between runs.
func RSA(i int) *rsa.PrivateKey {
	i = ((i % NumRSA) + NumRSA) % NumRSA
	data, err := files.ReadFile(fmt.Sprintf("rsa2048_%d.pem", i))
	if err != nil {
		panic(err)
	}
	blk, _ := pem.Decode(data)
	k, err := x509.ParsePKCS1PrivateKey(blk.Bytes)
	if err != nil {
		panic(err)
	}
	return k
}

// RSAShared returns a cached key object (Precompute done), for callers that only read it.
func RSAShared(i int) *rsa.PrivateKey {
	i = ((i % NumRSA) + NumRSA) % NumRSA
	if cache[i] == nil {
		cache[i] = RSA(i)
	}
	return cache[i]
}
