package core

import (
	"crypto/sha256"
	"encoding/hex"
	"encoding/json"
	"fmt"
	"sort"
)

// Step is one item of a plan: a session, an operation, a fault, a preemption — whatever the
// scenario's interpreter defines for Op. Plans are explicit data so that replay files are
// plans and minimisation is delta debugging over Steps and their integer arguments.
type Step struct {
	Op string   `json:"op"`
	A  []int64  `json:"a,omitempty"`
	S  []string `json:"s,omitempty"`
}

// Plan is the complete description of one simulated run. Executing a plan draws nothing from
// a PRNG: every choice is in here. Seed roots the simulated entropy streams only.
type Plan struct {
	Prop  string           `json:"prop"`
	Seed  uint64           `json:"seed"`
	Tier  string           `json:"tier"`
	Index int              `json:"index"`
	Cfg   map[string]int64 `json:"cfg,omitempty"`
	Steps []Step           `json:"steps"`
}

func (p *Plan) C(key string, def int64) int64 {
	if v, ok := p.Cfg[key]; ok {
		return v
	}
	return def
}

func (p *Plan) Clone() *Plan {
	q := *p
	q.Cfg = map[string]int64{}
	for k, v := range p.Cfg {
		q.Cfg[k] = v
	}
	q.Steps = make([]Step, len(p.Steps))
	for i, s := range p.Steps {
		q.Steps[i] = Step{Op: s.Op, A: append([]int64(nil), s.A...), S: append([]string(nil), s.S...)}
	}
	return &q
}

func (s Step) Arg(i int, def int64) int64 {
	if i < len(s.A) {
		return s.A[i]
	}
	return def
}

func (s Step) Str(i int) string {
	if i < len(s.S) {
		return s.S[i]
	}
	return ""
}

// Violation is one oracle firing. Sig is the stable signature used for minimisation
// ("same violation class persists"), for replay and for matching known findings.
type Violation struct {
	Sig    string `json:"sig"`
	Detail string `json:"detail"`
	Step   int    `json:"step"`
}

// FaultCount is [planned, fired, fired inside an in-flight session/operation].
type FaultCount [3]int

// Result is what executing one plan produced.
type Result struct {
	Index       int                   `json:"index"`
	Violations  []Violation           `json:"violations,omitempty"`
	Fingerprint string                `json:"fp"`           // hash of the canonical event log
	NontrivKeys []string              `json:"nt,omitempty"` // keys of distinct non-trivial cases in this run
	Evals       int                   `json:"evals"`        // oracle evaluations (handler calls judged)
	Faults      map[string]FaultCount `json:"faults,omitempty"`
	Probes      map[string]int        `json:"probes,omitempty"`
	States      []string              `json:"states,omitempty"` // state hashes reached (bounded per run)
	SimNanos    int64                 `json:"sim_ns"`
	Sample      any                   `json:"sample,omitempty"`
	Infra       string                `json:"infra,omitempty"` // infrastructure trouble (exit 2), never a violation
	Plan        *Plan                 `json:"plan,omitempty"`  // attached when a violation fired
	stderr      string
}

func NewResult() *Result {
	return &Result{Faults: map[string]FaultCount{}, Probes: map[string]int{}}
}

func (r *Result) Violate(sig, detail string, step int) {
	for _, v := range r.Violations {
		if v.Sig == sig {
			return // one per signature per run is enough
		}
	}
	if len(detail) > 2600 {
		detail = detail[:2600] + "…"
	}
	r.Violations = append(r.Violations, Violation{Sig: sig, Detail: detail, Step: step})
}

func (r *Result) Probe(name string) { r.Probes[name]++ }

func (r *Result) FaultPlanned(kind string) {
	c := r.Faults[kind]
	c[0]++
	r.Faults[kind] = c
}

func (r *Result) FaultFired(kind string, inflight bool) {
	c := r.Faults[kind]
	c[1]++
	if inflight {
		c[2]++
	}
	r.Faults[kind] = c
}

func (r *Result) Nontrivial(key string) {
	if len(r.NontrivKeys) < 4096 {
		r.NontrivKeys = append(r.NontrivKeys, key)
	}
}

func (r *Result) State(key string) {
	if len(r.States) < 2048 {
		r.States = append(r.States, key)
	}
}

// EventLog accumulates the canonical event log of a run; its hash is the run fingerprint used
// by the determinism self-test. Logging never draws from a PRNG and never reads a clock.
type EventLog struct {
	h     interface{ Write([]byte) (int, error) }
	sum   func() []byte
	N     int
	Lines []string // kept only when Keep is set (replay / debugging)
	Keep  bool
}

func NewEventLog(keep bool) *EventLog {
	h := sha256.New()
	return &EventLog{h: h, sum: func() []byte { return h.Sum(nil) }, Keep: keep}
}

func (l *EventLog) Add(format string, args ...any) {
	s := fmt.Sprintf(format, args...)
	l.h.Write([]byte(s))
	l.h.Write([]byte{'\n'})
	l.N++
	if l.Keep {
		l.Lines = append(l.Lines, s)
	}
}

func (l *EventLog) Hash() string { return hex.EncodeToString(l.sum()[:12]) }

func H(b []byte) string {
	s := sha256.Sum256(b)
	return hex.EncodeToString(s[:6])
}

func Hex(b []byte) string { return hex.EncodeToString(b) }

func Unhex(s string) []byte {
	b, err := hex.DecodeString(s)
	if err != nil {
		panic("bad hex in plan: " + err.Error())
	}
	return b
}

func JSON(v any) string {
	b, _ := json.Marshal(v)
	return string(b)
}

func SortedKeys[V any](m map[string]V) []string {
	ks := make([]string, 0, len(m))
	for k := range m {
		ks = append(ks, k)
	}
	sort.Strings(ks)
	return ks
}

// Scenario is one property's simulated check: a plan generator and a plan interpreter.
type Scenario interface {
	ID() string
	Level() string // exploration | fault_enumeration
	// Runs returns how many plans the tier executes.
	Runs(tier string) int
	// Generate builds plan idx of a tier from the seed. All randomness comes from seed.
	Generate(seed uint64, tier string, idx int) *Plan
	// Execute interprets a plan. It must be a pure function of the plan and the code.
	Execute(p *Plan) *Result
	// Describe returns evidence texts: rule, components (real/stub), assumptions.
	Describe() Description
}

type Description struct {
	Rule        string
	Real        []string
	Stub        []string
	Assumptions []string
	Technique   string
	// Isolated: one OS process per plan (handlers may kill the process).
	Isolated bool
	// Race: built with -race from the instrumented scratch copy (C17).
	Race bool
	// PlansPerProcess > 0: a worker process executes at most that many plans (cold starts).
	PlansPerProcess int
	// AddressSpaceGiB overrides the 6 GiB address-space limit of worker processes.
	AddressSpaceGiB int
	// ReportAs: property id under which violations of this scenario are reported (a scenario
	// that is the second engine of another property's check).
	ReportAs string
}

var registry = map[string]Scenario{}

func Register(s Scenario) { registry[s.ID()] = s }

func Lookup(id string) Scenario { return registry[id] }

func AllIDs() []string { return SortedKeys(registry) }
