package props

import (
	"fmt"

	"verif/internal/core"
	"verif/internal/world"
)

// C01 — honest issuance over the wire always yields a valid, correctly bound token.
type c01 struct{ base }

func init() { core.Register(c01{base{"C01", "exploration", 3000, 120000}}) }

func (c01) Describe() core.Description {
	return core.Description{
		Technique: "deterministic simulation: honest deployment of all four token types over a simulated byte network with benign faults (delay, reorder, duplicate, drop+retransmit, segmentation), independent token-structure and RSA-PSS/issuer verification oracle",
		Rule: "one case = one simulated deployment run (plan from VERIF_SEED: 1-3 issuers per type, 3-24 interleaved sessions of types 1/2/3/5, challenge lengths 0..2000 boundary-biased, type-5 batches 1..40 (thorough: up to 520), origin names of varied length, benign network faults); " +
			"non-trivial = a session of some (type, batch-size class, challenge-length class) completed while at least one benign fault fired inside it or another session was in flight; distinct = distinct (type, class, fault set) keys",
		Real:        []string{"tokens/type1,2,3,5 clients+issuers+request/token codecs", "tokens.TokenChallenge", "type3 attester", "quicwire (framing)", "util token-key codec", "ecdsa (type-3 request signing)"},
		Stub:        []string{"network + benign adversary", "entropy source", "arena", "attester cache (recording map)", "directory", "origin redemption"},
		Assumptions: []string{"RSA keys come from a fixture pool of 8 pre-generated 2048-bit keys", "Go standard library crypto/rsa, crypto/sha256 as reference", "circl VOPRF used by both sides"},
	}
}

// genConfig draws the deployment. collide allows origins to share an index key.
func genConfig(r *core.Rand, p *core.Plan, types []int, collide bool) (n1, n2, n3, n5, nclients, norigins int) {
	p.Cfg["spare"] = int64(r.Pick([]int{0, 0, 1, 7, 64, 4096}))
	p.Cfg["poison"] = int64(r.Intn(256))
	p.Cfg["segmode"] = int64(r.Intn(4))
	p.Cfg["jitter"] = int64(r.Pick([]int{0, 1000, 3_000_000, 40_000_000}))
	p.Cfg["reuse"] = int64(r.Intn(2))    // OBJREUSE: each issuer keeps one request object and decodes every arriving message into it
	p.Cfg["bufreuse"] = int64(r.Intn(2)) // REUSE: argument buffers return to a pool, are scrambled and reused
	p.Cfg["scramble"] = int64(r.Intn(256))
	has := map[int]bool{}
	for _, t := range types {
		has[t] = true
	}
	if has[1] {
		n1 = r.Range(1, 3)
		for i := 0; i < n1; i++ {
			p.Steps = append(p.Steps, core.Step{Op: "iss", A: []int64{1, int64(r.Intn(1 << 20))}})
		}
	}
	if has[2] {
		n2 = r.Range(1, 2)
		for i := 0; i < n2; i++ {
			p.Steps = append(p.Steps, core.Step{Op: "iss", A: []int64{2, int64(r.Intn(8))}})
		}
	}
	if has[5] {
		n5 = r.Range(1, 3)
		for i := 0; i < n5; i++ {
			p.Steps = append(p.Steps, core.Step{Op: "iss", A: []int64{5, int64(r.Intn(1 << 20))}})
		}
	}
	if has[3] {
		n3 = r.Range(1, 2)
		for i := 0; i < n3; i++ {
			p.Steps = append(p.Steps, core.Step{Op: "iss", A: []int64{3, int64(r.Intn(8))}})
		}
		nclients = r.Range(1, 3)
		for i := 0; i < nclients; i++ {
			p.Steps = append(p.Steps, core.Step{Op: "client3", A: []int64{int64(r.Intn(1 << 20))}})
		}
		norigins = r.Range(1, 4)
		for i := 0; i < norigins; i++ {
			nameLen := r.Pick([]int{0, 1, 5, 14, 31, 32, 33, 63, 64, 65, 100, 255, 256, 700})
			keySeed := int64(100 + i)
			if collide {
				keySeed = int64(r.Intn(3))
			}
			p.Steps = append(p.Steps, core.Step{Op: "origin", A: []int64{int64(r.Intn(n3)), int64(nameLen), int64(r.Intn(1 << 20)), int64(r.Intn(2)), keySeed}})
		}
	}
	return
}

var chLens = []int{0, 0, 1, 31, 32, 32, 33, 255, 256, 257, 1000, 2000}

func (c c01) Generate(seed uint64, tier string, idx int) *core.Plan {
	r := core.NewRand(core.MixI(core.Mix(seed, "C01/"+tier), idx))
	p := &core.Plan{Prop: "C01", Seed: r.U64(), Tier: tier, Cfg: map[string]int64{}}
	// swarm: which types are enabled in this run
	var types []int
	for _, t := range []int{1, 2, 3, 5} {
		if r.Bool(60) {
			types = append(types, t)
		}
	}
	if len(types) == 0 {
		types = []int{r.Pick([]int{1, 2, 3, 5})}
	}
	n1, n2, _, n5, ncl, nor := genConfig(r, p, types, false)
	nsess := r.Range(3, 12)
	if tier == "thorough" {
		nsess = r.Range(3, 24)
	}
	// origins registered while traffic is already flowing (both registration entry points)
	lateFrom := nor
	if nor > 0 && r.Bool(40) {
		for k := 0; k < r.Range(1, 2); k++ {
			p.Steps = append(p.Steps, core.Step{Op: "origin", A: []int64{0, int64(r.Pick([]int{5, 14, 33})), int64(r.Intn(1 << 20)), int64(r.Intn(2)), int64(300 + k), 12_000_000}})
			nor++
		}
	}
	maxBatch := 40
	if tier == "thorough" && r.Bool(4) {
		maxBatch = 520
	}
	benign := r.Pick([]int{0, 20, 40, 70})
	for i := 0; i < nsess; i++ {
		t := types[r.Intn(len(types))]
		a := make([]int64, sAnon+1)
		a[sID], a[sType] = int64(i+1), int64(t)
		switch t {
		case 1:
			a[sIss] = int64(r.Intn(n1))
		case 2:
			a[sIss] = int64(r.Intn(n2))
		case 5:
			a[sIss] = int64(r.Intn(n5))
			b := r.Pick([]int{1, 1, 2, 3, 4, 7, 8, 16, 31, 32, 33, maxBatch})
			if b == maxBatch && maxBatch > 40 {
				b = r.Pick([]int{511, 512, 513, 520})
			}
			a[sBatch] = int64(b)
		case 3:
			a[sClient] = int64(r.Intn(ncl))
			a[sOrigin] = int64(r.Intn(nor))
		}
		a[sChKind] = int64(r.Intn(2))
		a[sChLen] = int64(chLens[r.Intn(len(chLens))])
		a[sSeed] = int64(r.Intn(1 << 30))
		a[sDelay] = int64(r.Intn(20)) * 1_000_000
		if t == 3 && int(a[sOrigin]) >= lateFrom {
			a[sDelay] = int64(r.Range(20, 40)) * 1_000_000 // after the late registration
		} else if t == 3 {
			a[sDelay] = int64(r.Intn(8)) * 1_000_000 // early type-3 traffic precedes it
		}
		a[sAnon] = -1
		if t == 3 {
			// an honest client commits to one anonymous origin id per origin
			a[sAnon] = -2
		}
		p.Steps = append(p.Steps, core.Step{Op: "sess", A: a})
		// benign faults on this session's hops
		hops := []int{world.KReq, world.KResp, world.KTok}
		if t == 3 {
			hops = []int{world.KAttReq, world.KIssReq, world.KIssResp, world.KAttResp, world.KTok}
		}
		for _, h := range hops {
			if !r.Bool(benign) {
				continue
			}
			kind := r.PickS([]string{"delay", "delay", "dup", "dup", "drop"})
			p.Steps = append(p.Steps, core.Step{Op: "fault", S: []string{kind}, A: []int64{int64(i + 1), int64(h), int64(r.Range(1, 60)) * 1_000_000}})
		}
	}
	return p
}

func lenClass(n int) string {
	switch {
	case n == 0:
		return "0"
	case n < 32:
		return "<32"
	case n == 32:
		return "32"
	case n <= 256:
		return "<=256"
	}
	return ">256"
}

func (c c01) Execute(p *core.Plan) *core.Result {
	res := core.NewResult()
	w := BuildWorld(p, res, false)
	w.ReuseDecoder = p.C("reuse", 0) == 1
	world.NewPlanAdversary(w)
	w.Observers = append(w.Observers, func(o *world.Outcome) {
		res.Evals++
		s := o.S
		tag := fmt.Sprintf("C01/type%d/%s", s.Type, o.Op)
		if o.Panic != nil {
			res.Violate(tag+"/panic", fmt.Sprintf("session %d: %v", s.ID, o.Panic), -1)
			return
		}
		if o.Err != nil {
			res.Violate(tag+"/error", fmt.Sprintf("session %d (challenge %d bytes, %d nonces): honest %s failed: %v", s.ID, len(s.Challenge), len(s.Nonces), o.Op, o.Err), -1)
			return
		}
		if o.Op == "finalize" {
			if len(o.Tokens) != len(s.Nonces) {
				res.Violate(tag+"/count", fmt.Sprintf("session %d: %d tokens for %d nonces", s.ID, len(o.Tokens), len(s.Nonces)), -1)
				return
			}
			for i, t := range o.Tokens {
				if msg := CheckTokenBinding(s, i, t, hostKeyID(w, s)); msg != "" {
					res.Violate(tag+"/binding", fmt.Sprintf("session %d token %d: %s", s.ID, i, msg), -1)
				}
			}
			if s.Finals > 1 {
				res.Probe("client finalized twice (duplicated response)")
			}
		}
	})
	StartAll(w)
	if !w.Net.Run() {
		res.Infra = "step budget exhausted"
	}
	for _, id := range w.Order {
		s := w.Sessions[id]
		if s.Finals == 0 && s.CreateErr == nil && len(res.Violations) == 0 {
			res.Violate(fmt.Sprintf("C01/type%d/incomplete", s.Type), fmt.Sprintf("session %d never produced a token", s.ID), -1)
			continue
		}
		if s.Redeemed < len(s.Tokens) || s.RedeemOK != s.Redeemed {
			if len(res.Violations) == 0 {
				res.Violate(fmt.Sprintf("C01/type%d/redeem", s.Type), fmt.Sprintf("session %d: %d tokens, %d redemptions, %d verified", s.ID, len(s.Tokens), s.Redeemed, s.RedeemOK), -1)
			}
			continue
		}
		// the tokens the client still holds at the end of the run (live objects, not the copies
		// that went over the wire) must still be its own and still verify
		for i, t := range s.Tokens {
			if msg := CheckTokenBinding(s, i, t, hostKeyID(w, s)); msg != "" {
				res.Violate(fmt.Sprintf("C01/type%d/held-token-changed", s.Type), fmt.Sprintf("session %d token %d, re-checked at the end of the run: %s", s.ID, i, msg), -1)
			} else if _, err := w.VerifyTokenBytes(s.Type, s.Iss, t.Marshal()); err != nil {
				res.Violate(fmt.Sprintf("C01/type%d/held-token-changed", s.Type), fmt.Sprintf("session %d token %d no longer verifies at the end of the run: %v", s.ID, i, err), -1)
			}
		}
		batch := "1"
		if s.Type == 5 {
			batch = lenClass(len(s.Nonces))
		}
		res.Nontrivial(fmt.Sprintf("t%d/ch%s/b%s/fin%d", s.Type, lenClass(len(s.Challenge)), batch, s.Finals))
	}
	if len(w.Order) > 0 {
		s := w.Sessions[w.Order[0]]
		res.Sample = map[string]any{"sessions": len(w.Order), "first": map[string]any{"type": s.Type, "challenge_len": len(s.Challenge), "nonces": len(s.Nonces), "origin": s.Origin, "request_sha": core.H(s.ReqBytes), "finalized": s.Finals, "redeemed_ok": s.RedeemOK},
			"cfg": p.Cfg, "frames": w.Net.Frames, "segments": w.Net.Segs}
	}
	finish(w, res)
	return res
}
