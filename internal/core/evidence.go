package core

import (
	"encoding/json"
	"fmt"
	"os"
	"path/filepath"
)

func WriteEvidence(sc Scenario, tier string, seed uint64, a *aggregate, wall float64, violations int) {
	d := sc.Describe()
	faults := map[string]map[string]int{}
	for _, k := range SortedKeys(a.faults) {
		v := a.faults[k]
		faults[k] = map[string]int{"planned": v[0], "fired": v[1], "fired_in_flight": v[2]}
	}
	perHour := 0.0
	if wall > 0 {
		perHour = float64(a.runs) / wall * 3600
	}
	samples := a.samples
	if len(samples) == 0 {
		samples = []any{"(no sample recorded)"}
	}
	// the first two plans of the tier, written out (first 14 steps each): what a case looks like
	for i := 0; i < 2 && i < sc.Runs(tier); i++ {
		p := sc.Generate(seed, tier, i)
		steps := p.Steps
		more := 0
		if len(steps) > 14 {
			more = len(steps) - 14
			steps = steps[:14]
		}
		samples = append(samples, map[string]any{"plan_index": i, "entropy_seed": p.Seed, "cfg": p.Cfg, "steps": steps, "further_steps": more})
	}
	cov := map[string]any{
		"evaluations":               a.evals,
		"distinct_nontrivial":       len(a.nontriv),
		"rule":                      d.Rule,
		"samples":                   samples,
		"simulated_runs":            a.runs,
		"distinct_run_fingerprints": len(a.fps),
		"runs_per_hour":             int(perHour),
		"seeds_per_hour":            int(perHour),
		"simulated_seconds":         float64(a.simNanos) / 1e9,
		"fault_kinds":               faults,
		"reach_probes":              a.probes,
		"distinct_states":           len(a.states),
		"components_real_code":      d.Real,
		"components_stub":           d.Stub,
		"technique":                 d.Technique,
	}
	ev := map[string]any{
		"property_id": sc.ID(),
		"tier":        tier,
		"seed":        int64(seed & 0x7fffffffffffffff),
		"level":       sc.Level(),
		"coverage":    cov,
		"assumptions": d.Assumptions,
		"wall_s":      wall,
		"violations":  violations,
	}
	if len(a.infra) > 0 {
		ev["infrastructure_trouble"] = a.infra
	}
	path := filepath.Join(OutDir(), "evidence", sc.ID()+".json")
	os.MkdirAll(filepath.Dir(path), 0o755)
	b, err := json.MarshalIndent(ev, "", " ")
	if err != nil {
		fmt.Fprintln(os.Stderr, "evidence:", err)
		return
	}
	os.WriteFile(path, b, 0o644)
}
