#!/bin/bash
# Runs every property's quick (or given) tier under several seeds and prints exit codes:
# the false-alarm sweep on the unchanged tree.   tools/seedsweep.sh "1 2 3" [tier] [ids...]
cd "$(dirname "$0")/.."
SEEDS="${1:-1 2 3}"; TIER="${2:-quick}"; shift; shift
IDS="$@"; [ -z "$IDS" ] && IDS=$(python3 -c "print(' '.join('C%02d'%i for i in range(1,21)))")
for s in $SEEDS; do for id in $IDS; do
  out=$(VERIF_SEED=$s ./check $id $TIER 2>&1); rc=$?
  echo "seed=$s $id rc=$rc $(echo "$out" | tail -1)"
  [ $rc -ne 0 ] && echo "$out" | grep -E "VIOLATION|signature|detail|INFRA" | head -8
done; done
