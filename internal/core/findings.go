package core

import (
	"encoding/json"
	"os"
	"path/filepath"
	"strings"
)

// Finding is one entry of /verif/known_findings.json. Entries with status "known" suppress
// exactly the violations whose signature they name (exact, or by prefix when Match is
// "prefix"); entries with status "fixed" suppress nothing and are a record only. The file is
// never written at run time.
type Finding struct {
	Status    string `json:"status"` // known | fixed
	Property  string `json:"property"`
	Signature string `json:"signature"`
	Match     string `json:"match,omitempty"` // exact (default) | prefix | contains
	What      string `json:"what"`
	Commit    string `json:"commit,omitempty"`
}

type Findings struct {
	Findings []Finding `json:"findings"`
}

func LoadFindings() *Findings {
	f := &Findings{}
	data, err := os.ReadFile(filepath.Join(Root(), "known_findings.json"))
	if err != nil {
		return f
	}
	json.Unmarshal(data, f)
	return f
}

func (f *Findings) Match(prop, sig string) *Finding {
	for i := range f.Findings {
		k := &f.Findings[i]
		if k.Status != "known" || k.Property != prop {
			continue
		}
		if k.Signature == sig || (k.Match == "prefix" && strings.HasPrefix(sig, k.Signature)) ||
			(k.Match == "contains" && strings.HasPrefix(sig, prop+"/race/") && strings.Contains(sig, k.Signature)) {
			return k
		}
	}
	return nil
}
