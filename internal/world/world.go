// Package world is the simulated Privacy Pass deployment: clients, an attester, issuers of
// token types 1, 2, 3 and 5, a generic batch issuer, origins and a key directory, all in one
// process, every message carried as bytes by simnet, every random byte drawn from the
// simulated entropy source, every buffer handed to repository code carved from the arena.
//
// Real code: everything under github.com/cloudflare/pat-go. Stubs: network, adversary,
// entropy, arena, the attester's cache, the directory, the origin's redemption bookkeeping
// and the adapters from type-1/type-2 issuers to batched.Issuer.
package world

import (
	"crypto"
	"crypto/elliptic"
	"crypto/rsa"
	"crypto/sha256"
	"crypto/sha512"
	"fmt"
	"reflect"
	"runtime/debug"
	"sort"

	"github.com/cloudflare/circl/oprf"
	"github.com/cloudflare/pat-go/tokens"
	"github.com/cloudflare/pat-go/tokens/batched"
	"github.com/cloudflare/pat-go/tokens/type1"
	"github.com/cloudflare/pat-go/tokens/type2"
	"github.com/cloudflare/pat-go/tokens/type3"
	"github.com/cloudflare/pat-go/tokens/type5"
	"github.com/cloudflare/pat-go/util"

	"verif/internal/arena"
	"verif/internal/core"
	"verif/internal/entropy"
	"verif/internal/fixtures"
	"verif/internal/simnet"
)

// Message kinds (hops).
const (
	KReq      = 1  // client -> issuer (types 1, 2, 5)
	KResp     = 2  // issuer -> client
	KTok      = 3  // client -> origin (redemption)
	KAttReq   = 4  // client -> attester (type 3; side = blind, client key, anon origin id)
	KIssReq   = 5  // attester -> issuer (type 3)
	KIssResp  = 6  // issuer -> attester (side = blinded request key)
	KAttResp  = 7  // attester -> client
	KBatchReq = 8  // client -> generic batch issuer
	KBatchRsp = 9  // generic batch issuer -> client
	KTokParts = 10 // client -> origin: a token presented as separate fields (side = nonce, context, key id, authenticator; tag = token type)
)

var KindName = map[int]string{KReq: "req", KResp: "resp", KTok: "token", KAttReq: "att-req", KIssReq: "iss-req", KIssResp: "iss-resp", KAttResp: "att-resp", KBatchReq: "batch-req", KBatchRsp: "batch-resp"}

type Issuer1 struct {
	Seed     []byte
	Key      *oprf.PrivateKey
	Iss      *type1.BasicPrivateIssuer
	PubBytes []byte // directory entry
	KeyID    []byte // SHA-256(PubBytes), computed by the harness
}

type Issuer5 struct {
	Seed     []byte
	Key      *oprf.PrivateKey
	Iss      *type5.BatchedPrivateIssuer
	PubBytes []byte
	KeyID    []byte
}

type Issuer2 struct {
	Fix    int
	Key    *rsa.PrivateKey
	Iss    *type2.BasicPublicIssuer
	PubDER []byte // directory entry (RSASSA-PSS SPKI)
	KeyID  []byte
}

type Issuer3 struct {
	Fix          int
	Key          *rsa.PrivateKey
	Iss          *type3.RateLimitedIssuer
	PubDER       []byte
	KeyID        []byte
	NameKeyBytes []byte            // directory entry (EncapKey encoding)
	Ikm          []byte            // recorded entropy the name key was derived from
	Origins      map[string][]byte // registered origin name -> index key scalar bytes
	OriginOrder  []string
}

type Client3 struct {
	Secret []byte
	C      type3.RateLimitedClient
	PubEnc []byte // compressed P-384 public key
}

// RecCache is the recording ClientStateCache stub.
type RecCache struct {
	M    map[string]*type3.ClientState
	Gets int
	Puts int
	Log  []string
}

func NewRecCache() *RecCache { return &RecCache{M: map[string]*type3.ClientState{}} }

func (c *RecCache) Get(id string) (*type3.ClientState, bool) {
	c.Gets++
	s, ok := c.M[id]
	return s, ok
}

func (c *RecCache) Put(id string, s *type3.ClientState) {
	c.Puts++
	c.Log = append(c.Log, id)
	c.M[id] = s
}

type Session struct {
	ID        int
	Type      int // 1, 2, 3, 5
	Iss       int // issuer index within the type
	Challenge []byte
	Nonces    [][]byte
	// type 3
	Client     int
	Origin     string
	Blind      []byte
	AnonOrigin []byte
	// fixed-blind variants (C11)
	FixedBlinds [][]byte
	Salt        []byte

	// runtime state
	St1       *type1.BasicPrivateTokenRequestState
	St2       *type2.BasicPublicTokenRequestState
	St3       *type3.RateLimitedTokenRequestState
	St5       *type5.BatchedPrivateTokenRequestState
	KeyID     []byte // key id the request was created for
	ReqBytes  []byte // honest request encoding
	CreateErr error
	Tokens    []tokens.Token // tokens of the first successful finalize
	Finals    int            // successful finalizations
	FinalErr  []error
	Redeemed  int
	RedeemOK  int
	Index     []byte // anonymous issuer origin id from the attester (type 3)
	Done      bool
	Hostile   bool // some fault other than benign ones touched this session
	Stop      bool // hostile session injected mid-path: do not forward beyond the party under test
	Meta      map[string]any
}

// Outcome is what one handler invocation did; oracles observe these.
type Outcome struct {
	Msg    *simnet.Msg
	S      *Session
	Party  string
	Op     string
	Err    error
	OK     bool // decoder returned true / handler accepted
	Panic  any
	Stack  string
	Out    []byte
	Out2   []byte
	Tokens []tokens.Token
	Arena  []string // arena audit differences
	In     []byte   // the payload as delivered
	// Handed: byte slices the repository handed out during this call that a later call on the
	// same object might alter (e.g. Marshal() of a decoder object that is reused).
	Handed []Handed
}

type Handed struct {
	Name  string
	Bytes []byte
}

type World struct {
	Plan  *core.Plan
	Res   *core.Result
	Log   *core.EventLog
	Net   *simnet.Net
	Ent   *entropy.Source
	Arena *arena.Arena

	I1 []*Issuer1
	I2 []*Issuer2
	I3 []*Issuer3
	I5 []*Issuer5
	C3 []*Client3

	Cache    *RecCache
	Attester *type3.RateLimitedAttester

	Sessions map[int]*Session
	Order    []int

	// Adversary intercepts every message about to be sent and returns what is really sent.
	Adversary func(m *simnet.Msg) []Sending
	Observers []func(o *Outcome)
	// ReuseDecoder: issuers keep one request object per type and decode into it (OBJREUSE).
	ReuseDecoder bool
	reuse1       *type1.BasicPrivateTokenRequest
	reuse2       *type2.BasicPublicTokenRequest
	reuse5       *type5.BatchedPrivateTokenRequest
	// Custom handlers for scenario-specific message kinds.
	Custom map[int]func(m *simnet.Msg, s *Session, o *Outcome, op string)
}

type Sending struct {
	M     *simnet.Msg
	Delay int64
}

func New(p *core.Plan, res *core.Result, keepLog bool) *World {
	w := &World{Plan: p, Res: res, Log: core.NewEventLog(keepLog), Ent: entropy.Global, Sessions: map[int]*Session{}}
	w.Ent.Reset(p.Seed)
	w.Net = simnet.New(w.Log, res)
	w.Net.SegSeed = core.Mix(p.Seed, "seg")
	w.Net.SegMode = int(p.C("segmode", 3))
	w.Net.Jitter = p.C("jitter", 3_000_000)
	w.Net.Handler = w.handle
	w.Arena = arena.New(arena.Layout{Spare: int(p.C("spare", 0)), Poison: byte(p.C("poison", 0xA5)), Guard: byte(p.C("guard", 0x5C))})
	// REUSE fault: argument buffers go back to a pool after every call, are scrambled and reused
	w.Arena.Pool = p.C("bufreuse", 0) == 1
	w.Arena.Scramble = byte(p.C("scramble", 0xEE))
	w.Cache = NewRecCache()
	w.Attester = type3.NewRateLimitedAttester(w.Cache)
	return w
}

// ---------------------------------------------------------------------------------------
// Configuration

func (w *World) seedBytes(label string, n int) []byte {
	return entropy.Block(w.Plan.Seed, 0, "config", label, n, 0)
}

func (w *World) AddIssuer1(keySeed int64) *Issuer1 {
	seed := w.seedBytes(fmt.Sprintf("iss1/%d/%d", keySeed, len(w.I1)), 48) // the index makes two issuers of one plan differ even for equal key numbers
	key, err := oprf.DeriveKey(oprf.SuiteP384, oprf.VerifiableMode, seed, []byte("verif"))
	if err != nil {
		panic(err)
	}
	iss := type1.NewBasicPrivateIssuer(key)
	pub, err := iss.TokenKey().MarshalBinary()
	if err != nil {
		panic(err)
	}
	id := sha256.Sum256(pub)
	i := &Issuer1{Seed: seed, Key: key, Iss: iss, PubBytes: pub, KeyID: id[:]}
	w.I1 = append(w.I1, i)
	return i
}

func (w *World) AddIssuer5(keySeed int64) *Issuer5 {
	seed := w.seedBytes(fmt.Sprintf("iss5/%d/%d", keySeed, len(w.I5)), 32)
	key, err := oprf.DeriveKey(oprf.SuiteRistretto255, oprf.VerifiableMode, seed, []byte("verif"))
	if err != nil {
		panic(err)
	}
	iss := type5.NewBatchedPrivateIssuer(key)
	pub, err := iss.TokenKey().MarshalBinary()
	if err != nil {
		panic(err)
	}
	id := sha256.Sum256(pub)
	i := &Issuer5{Seed: seed, Key: key, Iss: iss, PubBytes: pub, KeyID: id[:]}
	w.I5 = append(w.I5, i)
	return i
}

func (w *World) AddIssuer2(fix int64) *Issuer2 {
	for again := true; again; { // distinct fixture keys within one plan
		again = false
		for _, o := range w.I2 {
			if o.Fix == int(((fix%8)+8)%8) {
				fix++
				again = true
			}
		}
	}
	fix = ((fix % 8) + 8) % 8
	key := fixtures.RSA(int(fix))
	iss := type2.NewBasicPublicIssuer(key)
	der, err := util.MarshalTokenKeyPSSOID(&key.PublicKey)
	if err != nil {
		panic(err)
	}
	id := sha256.Sum256(der)
	i := &Issuer2{Fix: int(fix), Key: key, Iss: iss, PubDER: der, KeyID: id[:]}
	w.I2 = append(w.I2, i)
	return i
}

// AddIssuer3 creates a rate-limited issuer. Its HPKE name key is derived by the repository
// from 32 bytes of simulated entropy, which the harness records (Ikm).
func (w *World) AddIssuer3(fix int64) *Issuer3 {
	for again := true; again; {
		again = false
		for _, o := range w.I3 {
			if o.Fix == int(((fix%8)+8)%8) {
				fix++
				again = true
			}
		}
	}
	fix = ((fix % 8) + 8) % 8
	key := fixtures.RSA(int(fix))
	op := fmt.Sprintf("iss3/%d/new", len(w.I3))
	w.Ent.Begin("issuer3", op)
	iss := type3.NewRateLimitedIssuer(key)
	if iss == nil {
		panic("NewRateLimitedIssuer returned nil")
	}
	der, err := util.MarshalTokenKeyPSSOID(&key.PublicKey)
	if err != nil {
		panic(err)
	}
	id := sha256.Sum256(der)
	i := &Issuer3{Fix: int(fix), Key: key, Iss: iss, PubDER: der, KeyID: id[:], NameKeyBytes: iss.NameKey().Marshal(),
		Ikm: entropy.Block(w.Plan.Seed, 0, "issuer3", op, 32, 0), Origins: map[string][]byte{}}
	w.I3 = append(w.I3, i)
	return i
}

func (w *World) AddClient3(seed int64) *Client3 {
	secret := w.seedBytes(fmt.Sprintf("client3/%d", seed), 48)
	secret[0] &= 0x7f // keep below the group order
	c := type3.NewRateLimitedClientFromSecret(secret)
	x, y := elliptic.P384().ScalarBaseMult(secret)
	cl := &Client3{Secret: secret, C: c, PubEnc: elliptic.MarshalCompressed(elliptic.P384(), x, y)}
	w.C3 = append(w.C3, cl)
	return cl
}

// ---------------------------------------------------------------------------------------
// Sessions

func (w *World) AddSession(s *Session) {
	if s.Meta == nil {
		s.Meta = map[string]any{}
	}
	w.Sessions[s.ID] = s
	w.Order = append(w.Order, s.ID)
}

func (w *World) emit(o *Outcome) {
	for _, f := range w.Observers {
		f(o)
	}
}

// Guard runs f with panics recovered and the arena audited.
func (w *World) Guard(o *Outcome, f func()) { w.guard(o, f) }

func (w *World) guard(o *Outcome, f func()) {
	defer func() {
		if r := recover(); r != nil {
			o.Panic = r
			o.Stack = string(debug.Stack())
			o.Err = fmt.Errorf("panic: %v", r)
			w.Res.Probes["world:handler-panic"]++
		}
		o.Arena = w.Arena.Audit()
		w.Arena.Release()
	}()
	f()
}

func (w *World) send(m *simnet.Msg) {
	if w.Adversary != nil {
		for _, s := range w.Adversary(m) {
			w.Net.Send(s.M, s.Delay)
		}
		return
	}
	w.Net.Send(m, 0)
}

// Start makes the client of session id create its request and send it, after delay.
func (w *World) Start(id int, delay int64) {
	w.Net.After(delay, func() { w.startNow(id) })
}

func (w *World) startNow(id int) {
	s := w.Sessions[id]
	o := &Outcome{S: s, Party: "client", Op: "create"}
	w.Ent.Begin("client", fmt.Sprintf("s%d/create", s.ID))
	w.guard(o, func() {
		ch := w.Arena.Put("challenge", s.Challenge)
		switch s.Type {
		case 1:
			is := w.I1[s.Iss]
			pub := new(oprf.PublicKey)
			if err := pub.UnmarshalBinary(oprf.SuiteP384, is.PubBytes); err != nil {
				o.Err = err
				return
			}
			kid := sha256.Sum256(is.PubBytes) // what a deployed client does: id from the bytes received
			s.KeyID = kid[:]
			var st type1.BasicPrivateTokenRequestState
			var err error
			if s.FixedBlinds != nil {
				st, err = type1.BasicPrivateClient{}.CreateTokenRequestWithBlind(ch, w.Arena.Put("nonce", s.Nonces[0]), w.Arena.Put("keyid", s.KeyID), pub, w.Arena.Put("blind", s.FixedBlinds[0]))
			} else {
				st, err = type1.BasicPrivateClient{}.CreateTokenRequest(ch, w.Arena.Put("nonce", s.Nonces[0]), w.Arena.Put("keyid", s.KeyID), pub)
			}
			if err != nil {
				o.Err = err
				return
			}
			s.St1 = &st
			s.ReqBytes = append([]byte(nil), st.Request().Marshal()...)
		case 2:
			is := w.I2[s.Iss]
			pub, err := util.UnmarshalTokenKey(is.PubDER)
			if err != nil {
				o.Err = err
				return
			}
			kid := sha256.Sum256(is.PubDER)
			s.KeyID = kid[:]
			var st type2.BasicPublicTokenRequestState
			if s.FixedBlinds != nil {
				st, err = type2.BasicPublicClient{}.CreateTokenRequestWithBlind(ch, w.Arena.Put("nonce", s.Nonces[0]), w.Arena.Put("keyid", s.KeyID), pub, w.Arena.Put("blind", s.FixedBlinds[0]), w.Arena.Put("salt", s.Salt))
			} else {
				st, err = type2.BasicPublicClient{}.CreateTokenRequest(ch, w.Arena.Put("nonce", s.Nonces[0]), w.Arena.Put("keyid", s.KeyID), pub)
			}
			if err != nil {
				o.Err = err
				return
			}
			s.St2 = &st
			s.ReqBytes = append([]byte(nil), st.Request().Marshal()...)
		case 5:
			is := w.I5[s.Iss]
			pub := new(oprf.PublicKey)
			if err := pub.UnmarshalBinary(oprf.SuiteRistretto255, is.PubBytes); err != nil {
				o.Err = err
				return
			}
			kid := sha256.Sum256(is.PubBytes)
			s.KeyID = kid[:]
			nonces := make([][]byte, len(s.Nonces))
			for i := range nonces {
				nonces[i] = w.Arena.Put("nonce", s.Nonces[i])
			}
			var st type5.BatchedPrivateTokenRequestState
			var err error
			if s.FixedBlinds != nil {
				bl := make([][]byte, len(s.FixedBlinds))
				for i := range bl {
					bl[i] = w.Arena.Put("blind", s.FixedBlinds[i])
				}
				st, err = type5.BatchedPrivateClient{}.CreateTokenRequestWithBlinds(ch, nonces, w.Arena.Put("keyid", s.KeyID), pub, bl)
			} else {
				st, err = type5.BatchedPrivateClient{}.CreateTokenRequest(ch, nonces, w.Arena.Put("keyid", s.KeyID), pub)
			}
			if err != nil {
				o.Err = err
				return
			}
			s.St5 = &st
			s.ReqBytes = append([]byte(nil), st.Request().Marshal()...)
		case 3:
			is := w.I3[s.Iss]
			pub, err := util.UnmarshalTokenKey(is.PubDER)
			if err != nil {
				o.Err = err
				return
			}
			nameKey, err := type3.UnmarshalEncapKey(w.Arena.Put("namekey", is.NameKeyBytes))
			if err != nil {
				o.Err = err
				return
			}
			kid := sha256.Sum256(is.PubDER)
			s.KeyID = kid[:]
			cl := w.C3[s.Client]
			st, err := cl.C.CreateTokenRequest(ch, w.Arena.Put("nonce", s.Nonces[0]), w.Arena.Put("blind", s.Blind), w.Arena.Put("keyid", s.KeyID), pub, s.Origin, nameKey)
			if err != nil {
				o.Err = err
				return
			}
			s.St3 = &st
			s.ReqBytes = append([]byte(nil), st.Request().Marshal()...)
		default:
			o.Err = fmt.Errorf("unknown session type %d", s.Type)
		}
	})
	o.Out = s.ReqBytes
	s.CreateErr = o.Err
	w.Log.Add("create s=%d type=%d err=%v req=%s", s.ID, s.Type, o.Err != nil, core.H(s.ReqBytes))
	w.emit(o)
	if o.Err != nil {
		s.Done = true
		return
	}
	switch s.Type {
	case 3:
		w.send(&simnet.Msg{Sess: s.ID, Kind: KAttReq, From: "client", To: "attester", Payload: s.ReqBytes,
			Side: [][]byte{s.Blind, w.C3[s.Client].PubEnc, s.AnonOrigin}, Tag: w.tag(s.ID, KAttReq)})
	default:
		w.send(&simnet.Msg{Sess: s.ID, Kind: KReq, From: "client", To: fmt.Sprintf("issuer%d/%d", s.Type, s.Iss), Payload: s.ReqBytes, Tag: w.tag(s.ID, KReq)})
	}
}

var tagBoundaries = []uint64{0, 1, 62, 63, 64, 65, 16382, 16383, 16384, 16385, 1<<30 - 2, 1<<30 - 1, 1 << 30, 1<<30 + 1, 1<<62 - 2, 1<<62 - 1}

// tag is the boundary-biased header field carried by every frame (exercises every varint
// size class of quicwire on every run).
func (w *World) tag(sess, kind int) uint64 {
	h := core.MixI(core.Mix(w.Plan.Seed, "tag"), sess*16+kind)
	if h%3 == 0 {
		return tagBoundaries[(h/3)%uint64(len(tagBoundaries))]
	}
	switch (h / 3) % 4 {
	case 0:
		return (h >> 8) % 64
	case 1:
		return (h >> 8) % 16384
	case 2:
		return (h >> 8) % (1 << 30)
	}
	return (h >> 2) & (1<<62 - 1)
}

// ---------------------------------------------------------------------------------------
// Handlers

func (w *World) handle(m *simnet.Msg) {
	s := w.Sessions[m.Sess]
	if s == nil {
		w.Res.Violate("HARNESS/unknown-session", fmt.Sprintf("message for session %d", m.Sess), -1)
		return
	}
	o := &Outcome{Msg: m, S: s, In: m.Payload}
	opLabel := fmt.Sprintf("m%d", m.ID)
	switch m.Kind {
	case KReq:
		w.handleIssue(m, s, o, opLabel)
	case KResp, KAttResp:
		w.handleFinalize(m, s, o, opLabel)
	case KTok:
		w.handleRedeem(m, s, o, opLabel)
	case KAttReq:
		w.handleAttReq(m, s, o, opLabel)
	case KIssReq:
		w.handleIss3(m, s, o, opLabel)
	case KIssResp:
		w.handleAttResp(m, s, o, opLabel)
	case KTokParts:
		w.handleRedeemParts(m, s, o, opLabel)
	default:
		if h, ok := w.Custom[m.Kind]; ok {
			h(m, s, o, opLabel)
			return
		}
		w.Res.Violate("HARNESS/unknown-kind", fmt.Sprintf("kind %d", m.Kind), -1)
	}
}

// handleRedeemParts: an origin that already split the token into fields hands a tokens.Token
// to the issuer's Verify (types 1 and 5; the issuer index is in Meta, the verifying issuer's
// type in Payload[0]).
func (w *World) handleRedeemParts(m *simnet.Msg, s *Session, o *Outcome, op string) {
	o.Party, o.Op = "origin", "redeem-parts"
	if len(m.Side) != 4 || len(m.Payload) != 2 {
		w.Res.Violate("HARNESS/redeem-parts", "malformed parts message", -1)
		return
	}
	vt, idx := int(m.Payload[0]), int(m.Payload[1])
	w.Ent.Begin("origin", op)
	w.guard(o, func() {
		t := tokens.Token{TokenType: uint16(m.Tag), Nonce: w.Arena.Put("nonce", m.Side[0]), Context: w.Arena.Put("context", m.Side[1]),
			KeyID: w.Arena.Put("keyid", m.Side[2]), Authenticator: w.Arena.Put("auth", m.Side[3])}
		switch vt {
		case 1:
			o.Err = w.I1[idx].Iss.Verify(t)
		case 5:
			o.Err = w.I5[idx].Iss.Verify(t)
		default:
			o.Err = fmt.Errorf("no verifier")
		}
	})
	o.OK = o.Err == nil
	w.Log.Add("redeem-parts s=%d m=%d ok=%v", s.ID, m.ID, o.OK)
	w.emit(o)
}

func issuerIndex(to string, def int) int {
	var t, i int
	if n, _ := fmt.Sscanf(to, "issuer%d/%d", &t, &i); n == 2 {
		return i
	}
	return def
}

// handleIssue: issuer of type 1/2/5 decodes the request bytes into a request object and
// evaluates it.
func (w *World) handleIssue(m *simnet.Msg, s *Session, o *Outcome, op string) {
	o.Party, o.Op = "issuer", "evaluate"
	idx := issuerIndex(m.To, s.Iss)
	w.Ent.Begin(fmt.Sprintf("issuer%d/%d", s.Type, idx), op)
	w.guard(o, func() {
		data := w.Arena.Put("request", m.Payload)
		switch s.Type {
		case 1:
			req := new(type1.BasicPrivateTokenRequest)
			if w.ReuseDecoder {
				if w.reuse1 == nil {
					w.reuse1 = new(type1.BasicPrivateTokenRequest)
				}
				req = w.reuse1
			}
			if !req.Unmarshal(data) {
				o.Err = fmt.Errorf("request decode failed")
				return
			}
			o.OK = true
			if w.ReuseDecoder {
				// the reused decoder object's encoding is handed out (logged / forwarded)
				o.Handed = append(o.Handed, Handed{Name: fmt.Sprintf("reused type-1 request object's Marshal() after message %d", m.ID), Bytes: req.Marshal()})
			}
			o.Out, o.Err = w.I1[idx].Iss.Evaluate(req)
		case 2:
			req := new(type2.BasicPublicTokenRequest)
			if w.ReuseDecoder {
				if w.reuse2 == nil {
					w.reuse2 = new(type2.BasicPublicTokenRequest)
				}
				req = w.reuse2
			}
			if !req.Unmarshal(data) {
				o.Err = fmt.Errorf("request decode failed")
				return
			}
			o.OK = true
			if w.ReuseDecoder {
				// the reused decoder object's encoding is handed out (logged / forwarded)
				o.Handed = append(o.Handed, Handed{Name: fmt.Sprintf("reused type-2 request object's Marshal() after message %d", m.ID), Bytes: req.Marshal()})
			}
			o.Out, o.Err = w.I2[idx].Iss.Evaluate(req)
		case 5:
			req := new(type5.BatchedPrivateTokenRequest)
			if w.ReuseDecoder {
				if w.reuse5 == nil {
					w.reuse5 = new(type5.BatchedPrivateTokenRequest)
				}
				req = w.reuse5
			}
			if !req.Unmarshal(data) {
				o.Err = fmt.Errorf("request decode failed")
				return
			}
			o.OK = true
			if w.ReuseDecoder {
				// the reused decoder object's encoding is handed out (logged / forwarded)
				o.Handed = append(o.Handed, Handed{Name: fmt.Sprintf("reused type-5 request object's Marshal() after message %d", m.ID), Bytes: req.Marshal()})
			}
			o.Out, o.Err = w.I5[idx].Iss.Evaluate(req)
		}
	})
	w.Log.Add("evaluate s=%d m=%d err=%v out=%s", s.ID, m.ID, o.Err != nil, core.H(o.Out))
	if o.Err == nil && o.Out != nil {
		o.Handed = append(o.Handed, Handed{Name: fmt.Sprintf("type-%d issuer response for message %d", s.Type, m.ID), Bytes: o.Out})
	}
	w.emit(o)
	if o.Err == nil && o.Out != nil {
		w.send(&simnet.Msg{Sess: s.ID, Kind: KResp, From: m.To, To: "client", Payload: append([]byte(nil), o.Out...), Tag: w.tag(s.ID, KResp)})
	}
}

func (w *World) handleFinalize(m *simnet.Msg, s *Session, o *Outcome, op string) {
	o.Party, o.Op = "client", "finalize"
	w.Ent.Begin("client", op)
	w.guard(o, func() {
		data := w.Arena.Put("response", m.Payload)
		switch s.Type {
		case 1:
			var t tokens.Token
			t, o.Err = s.St1.FinalizeToken(data)
			if o.Err == nil {
				o.Tokens = []tokens.Token{t}
			}
		case 2:
			var t tokens.Token
			t, o.Err = s.St2.FinalizeToken(data)
			if o.Err == nil {
				o.Tokens = []tokens.Token{t}
			}
		case 3:
			var t tokens.Token
			t, o.Err = s.St3.FinalizeToken(data)
			if o.Err == nil {
				o.Tokens = []tokens.Token{t}
			}
		case 5:
			o.Tokens, o.Err = s.St5.FinalizeTokens(data)
			if o.Err != nil {
				o.Tokens = nil
			}
		}
	})
	o.OK = o.Err == nil
	w.Log.Add("finalize s=%d m=%d err=%v n=%d", s.ID, m.ID, o.Err != nil, len(o.Tokens))
	if o.Err == nil {
		s.Finals++
		first := s.Tokens == nil
		if first {
			s.Tokens = o.Tokens
		}
		w.emit(o)
		if first {
			for i, t := range o.Tokens {
				w.send(&simnet.Msg{Sess: s.ID, Kind: KTok, From: "client", To: "origin", Payload: t.Marshal(), Tag: uint64(i)})
			}
		}
		return
	}
	s.FinalErr = append(s.FinalErr, o.Err)
	w.emit(o)
}

// VerifyTokenBytes is the origin's redemption check on token bytes: decode with the type's
// decoder, then verify (issuer Verify for types 1 and 5, RSA-PSS for 2 and 3).
func (w *World) VerifyTokenBytes(typ, iss int, data []byte) (tokens.Token, error) {
	switch typ {
	case 1:
		t, err := type1.UnmarshalPrivateToken(data)
		if err != nil {
			return t, err
		}
		return t, w.I1[iss].Iss.Verify(t)
	case 5:
		t, err := type5.UnmarshalBatchedPrivateToken(data)
		if err != nil {
			return t, err
		}
		return t, w.I5[iss].Iss.Verify(t)
	case 2:
		t, err := type2.UnmarshalToken(data)
		if err != nil {
			return t, err
		}
		return t, VerifyPSS(&w.I2[iss].Key.PublicKey, t)
	case 3:
		t, err := type3.UnmarshalToken(data)
		if err != nil {
			return t, err
		}
		return t, VerifyPSS(&w.I3[iss].Key.PublicKey, t)
	}
	return tokens.Token{}, fmt.Errorf("unknown type")
}

// VerifyPSS is the independent RSA-PSS verification (crypto/rsa, SHA-384, salt 48) over the
// token's fields concatenated by the harness.
func VerifyPSS(pub *rsa.PublicKey, t tokens.Token) error {
	in := []byte{byte(t.TokenType >> 8), byte(t.TokenType)}
	in = append(in, t.Nonce...)
	in = append(in, t.Context...)
	in = append(in, t.KeyID...)
	d := sha512.Sum384(in)
	return rsa.VerifyPSS(pub, crypto.SHA384, d[:], t.Authenticator, &rsa.PSSOptions{Hash: crypto.SHA384, SaltLength: 48})
}

func (w *World) handleRedeem(m *simnet.Msg, s *Session, o *Outcome, op string) {
	o.Party, o.Op = "origin", "redeem"
	idx := s.Iss
	if v, ok := m.Meta.(int); ok {
		idx = v // redemption misrouted to another issuer of the type
	}
	w.Ent.Begin("origin", op)
	w.guard(o, func() {
		data := w.Arena.Put("token", m.Payload)
		_, o.Err = w.VerifyTokenBytes(s.Type, idx, data)
	})
	o.OK = o.Err == nil
	s.Redeemed++
	if o.OK {
		s.RedeemOK++
	}
	w.Log.Add("redeem s=%d m=%d ok=%v", s.ID, m.ID, o.OK)
	w.emit(o)
}

func (w *World) handleAttReq(m *simnet.Msg, s *Session, o *Outcome, op string) {
	o.Party, o.Op = "attester", "verify-request"
	w.Ent.Begin("attester", op)
	if len(m.Side) != 3 {
		w.Res.Violate("HARNESS/att-side", "attester request without side information", -1)
		return
	}
	w.guard(o, func() {
		data := w.Arena.Put("request", m.Payload)
		req := new(type3.RateLimitedTokenRequest)
		if !req.Unmarshal(data) {
			o.Err = fmt.Errorf("request decode failed")
			return
		}
		o.OK = true
		o.Err = w.Attester.VerifyRequest(*req, w.Arena.Put("blind", m.Side[0]), w.Arena.Put("clientkey", m.Side[1]), w.Arena.Put("anon", m.Side[2]))
	})
	w.Log.Add("att-verify s=%d m=%d err=%v", s.ID, m.ID, o.Err != nil)
	w.emit(o)
	if o.Err == nil && !s.Stop {
		w.send(&simnet.Msg{Sess: s.ID, Kind: KIssReq, From: "attester", To: fmt.Sprintf("issuer3/%d", s.Iss), Payload: append([]byte(nil), m.Payload...),
			Side: m.Side, Tag: w.tag(s.ID, KIssReq)})
	}
}

func (w *World) handleIss3(m *simnet.Msg, s *Session, o *Outcome, op string) {
	o.Party, o.Op = "issuer", "evaluate"
	idx := issuerIndex(m.To, s.Iss)
	w.Ent.Begin(fmt.Sprintf("issuer3/%d", idx), op)
	w.guard(o, func() {
		data := w.Arena.Put("request", m.Payload)
		o.Out, o.Out2, o.Err = w.I3[idx].Iss.Evaluate(data)
	})
	o.OK = o.Err == nil
	w.Log.Add("evaluate3 s=%d m=%d err=%v out=%s", s.ID, m.ID, o.Err != nil, core.H(o.Out))
	if o.Err == nil && o.Out != nil {
		o.Handed = append(o.Handed, Handed{Name: fmt.Sprintf("type-3 issuer response for message %d", m.ID), Bytes: o.Out},
			Handed{Name: fmt.Sprintf("type-3 blinded request key for message %d", m.ID), Bytes: o.Out2})
	}
	w.emit(o)
	if o.Err == nil && o.Out != nil && !s.Stop {
		side := append([][]byte{append([]byte(nil), o.Out2...)}, m.Side...)
		w.send(&simnet.Msg{Sess: s.ID, Kind: KIssResp, From: m.To, To: "attester", Payload: append([]byte(nil), o.Out...), Side: side, Tag: w.tag(s.ID, KIssResp)})
	}
}

// handleAttResp: the attester receives the issuer's response with the blinded request key,
// computes the anonymous issuer origin id and forwards the encrypted response to the client.
func (w *World) handleAttResp(m *simnet.Msg, s *Session, o *Outcome, op string) {
	o.Party, o.Op = "attester", "finalize-index"
	w.Ent.Begin("attester", op)
	if len(m.Side) != 4 {
		w.Res.Violate("HARNESS/att-side", "issuer response without side information", -1)
		return
	}
	w.guard(o, func() {
		o.Out, o.Err = w.Attester.FinalizeIndex(w.Arena.Put("clientkey", m.Side[2]), w.Arena.Put("blind", m.Side[1]), w.Arena.Put("reqkey", m.Side[0]), w.Arena.Put("anon", m.Side[3]))
	})
	o.OK = o.Err == nil
	w.Log.Add("att-index s=%d m=%d err=%v idx=%s", s.ID, m.ID, o.Err != nil, core.H(o.Out))
	if o.Err == nil && s.Index == nil {
		s.Index = o.Out
	}
	if o.Err == nil && o.Out != nil {
		o.Handed = append(o.Handed, Handed{Name: fmt.Sprintf("anonymous issuer origin id for message %d", m.ID), Bytes: o.Out})
	}
	w.emit(o)
	if o.Err == nil {
		w.send(&simnet.Msg{Sess: s.ID, Kind: KAttResp, From: "attester", To: "client", Payload: append([]byte(nil), m.Payload...), Tag: w.tag(s.ID, KAttResp)})
	}
}

// ---------------------------------------------------------------------------------------
// Generic batch adapters (the repository has this glue only in a test file).

type Adapter1 struct{ I *type1.BasicPrivateIssuer }

func (a Adapter1) Evaluate(req tokens.TokenRequest) ([]byte, error) {
	r, ok := req.(*type1.BasicPrivateTokenRequest)
	if !ok {
		return nil, fmt.Errorf("TokenRequest does not match issuer type")
	}
	return a.I.Evaluate(r)
}
func (a Adapter1) TokenKeyID() []byte { return a.I.TokenKeyID() }
func (a Adapter1) Type() uint16       { return a.I.Type() }

type Adapter2 struct{ I *type2.BasicPublicIssuer }

func (a Adapter2) Evaluate(req tokens.TokenRequest) ([]byte, error) {
	r, ok := req.(*type2.BasicPublicTokenRequest)
	if !ok {
		return nil, fmt.Errorf("TokenRequest does not match issuer type")
	}
	return a.I.Evaluate(r)
}
func (a Adapter2) TokenKeyID() []byte { return a.I.TokenKeyID() }
func (a Adapter2) Type() uint16       { return a.I.Type() }

var _ batched.Issuer = Adapter1{}
var _ batched.Issuer = Adapter2{}

// Fingerprint hashes the content of every cached ClientState (its fields are unexported, so
// they are read through reflection).
func (c *RecCache) Fingerprint() string {
	h := sha256.New()
	for _, id := range core.SortedKeys(c.M) {
		fmt.Fprintf(h, "client %s\n", id)
		v := reflect.ValueOf(c.M[id]).Elem()
		for i := 0; i < v.NumField(); i++ {
			f := v.Field(i)
			if f.Kind() != reflect.Map {
				continue
			}
			var lines []string
			it := f.MapRange()
			for it.Next() {
				k, val := it.Key(), it.Value()
				var vs string
				switch val.Kind() {
				case reflect.String:
					vs = val.String()
				case reflect.Int, reflect.Int64:
					vs = fmt.Sprint(val.Int())
				default:
					vs = val.Kind().String()
				}
				lines = append(lines, k.String()+"="+vs)
			}
			sort.Strings(lines)
			fmt.Fprintf(h, " %s %v\n", v.Type().Field(i).Name, lines)
		}
	}
	return fmt.Sprintf("%x", h.Sum(nil)[:8])
}

// SeedBytes derives configuration bytes from the plan seed and a label.
func (w *World) SeedBytes(label string, n int) []byte { return w.seedBytes(label, n) }
