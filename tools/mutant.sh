#!/bin/bash
# Applies a seeded change to a scratch worktree of /repo (outside /repo and /verif), runs the
# given checks (default: the property named in meta.json) against that worktree, prints which
# fired, and removes the worktree. /repo itself is not touched, so this can run beside other
# checks. With MUTANT_INPLACE=1 the change is applied to /repo itself and undone afterwards.
#   tools/mutant.sh seeded/<id> [tier] [check ids...]
cd "$(dirname "$0")/.."
DIR="$1"; TIER="${2:-quick}"; shift; shift
[ -f "$DIR/patch.diff" ] || { echo "no $DIR/patch.diff"; exit 2; }
IDS="$@"
[ -z "$IDS" ] && IDS=$(python3 -c "import json,sys; print(json.load(open('$DIR/meta.json'))['property'])")
if [ "${MUTANT_INPLACE:-0}" = "1" ]; then
  [ -z "$(git -C /repo status --porcelain)" ] || { echo "/repo is not clean"; exit 2; }
  git -C /repo apply "$PWD/$DIR/patch.diff" || { echo "patch does not apply"; exit 2; }
  trap 'git -C /repo checkout -- . ; git -C /repo clean -fdq' EXIT
  WT=/repo
else
  WT="/tmp/mut-$(basename $DIR)-$$"
  git -C /repo worktree add -q --detach "$WT" HEAD || exit 2
  trap 'git -C /repo worktree remove --force "$WT"; rm -rf "/tmp/mutout-$$" "bin/alt-$(echo "$WT" | tr / _)"' EXIT
  git -C "$WT" apply "$PWD/$DIR/patch.diff" || { echo "patch does not apply"; exit 2; }
  export VERIF_REPO="$WT" VERIF_OUT="/tmp/mutout-$$"; mkdir -p "$VERIF_OUT"
fi
( cd "$WT" && GOFLAGS=-mod=mod GOPROXY=off GOTOOLCHAIN=local go build ./... ) || { echo "RESULT $DIR build-failed"; exit 2; }
for id in $IDS; do
  out=$(./check $id $TIER 2>&1); rc=$?
  sig=$(echo "$out" | grep -m3 "signature:" | sed 's/.*signature: //' | tr '\n' ';' | cut -c1-300)
  echo "RESULT $DIR $id rc=$rc $sig"
done
