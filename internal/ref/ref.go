// Package ref holds the reference computations the oracles rest on. Nothing in here calls the
// function under test: everything is built from the Go standard library (crypto/elliptic,
// math/big, crypto/hmac, crypto/ecdsa, crypto/ed25519, encoding/asn1) and, for HPKE, from
// github.com/cisco/go-hpke called directly.
package ref

import (
	"crypto"
	stdecdsa "crypto/ecdsa"
	"crypto/elliptic"
	"crypto/hmac"
	"crypto/sha256"
	"crypto/sha512"
	"errors"
	"hash"
	"math/big"

	hpke "github.com/cisco/go-hpke"
)

// ExpandMessageXMD is expand_message_xmd of RFC 9380 §5.3.1.
func ExpandMessageXMD(h crypto.Hash, msg, dst []byte, n int) []byte {
	bIn := h.Size()
	var sIn int
	switch h {
	case crypto.SHA256:
		sIn = 64
	case crypto.SHA384, crypto.SHA512:
		sIn = 128
	default:
		panic("unsupported hash")
	}
	ell := (n + bIn - 1) / bIn
	if ell > 255 || len(dst) > 255 {
		panic("expand_message_xmd: too long")
	}
	dstPrime := append(append([]byte{}, dst...), byte(len(dst)))
	hh := h.New()
	hh.Write(make([]byte, sIn))
	hh.Write(msg)
	hh.Write([]byte{byte(n >> 8), byte(n), 0})
	hh.Write(dstPrime)
	b0 := hh.Sum(nil)
	hh.Reset()
	hh.Write(b0)
	hh.Write([]byte{1})
	hh.Write(dstPrime)
	bi := hh.Sum(nil)
	out := append([]byte{}, bi...)
	for i := 2; i <= ell; i++ {
		x := make([]byte, bIn)
		for j := range x {
			x[j] = b0[j] ^ bi[j]
		}
		hh.Reset()
		hh.Write(x)
		hh.Write([]byte{byte(i)})
		hh.Write(dstPrime)
		bi = hh.Sum(nil)
		out = append(out, bi...)
	}
	return out[:n]
}

// CurveHash returns the hash the key-blinding draft pairs with each curve and the security
// parameter k of RFC 9380 used to size hash_to_field's output.
func CurveHash(c elliptic.Curve) (crypto.Hash, int, bool) {
	switch c.Params().Name {
	case "P-256":
		return crypto.SHA256, 128, true
	case "P-384":
		return crypto.SHA384, 192, true
	case "P-521":
		return crypto.SHA512, 256, true
	}
	return 0, 0, false
}

// BlindFactor is hash_to_field(blind-key bytes || 0x00 || context) into the scalar field of
// c, with XMD over the curve's hash and DST "ECDSA Key Blind"; L = ceil((ceil(log2 N)+k)/8)
// per RFC 9380 §5. ok=false for curves RFC 9380 has no suite for (P-224).
func BlindFactor(c elliptic.Curve, blindKeyBytes, context []byte) (*big.Int, bool) {
	h, k, ok := CurveHash(c)
	if !ok {
		return nil, false
	}
	L := (c.Params().N.BitLen() + k + 7) / 8
	msg := append(append(append([]byte{}, blindKeyBytes...), 0x00), context...)
	u := ExpandMessageXMD(h, msg, []byte("ECDSA Key Blind"), L)
	v := new(big.Int).SetBytes(u)
	return v.Mod(v, c.Params().N), true
}

// MinimalBE returns the minimal big-endian encoding of the integer encoded by b.
func MinimalBE(b []byte) []byte { return new(big.Int).SetBytes(b).Bytes() }

// BlindPoint multiplies the point (x, y) by k using crypto/elliptic.
func BlindPoint(c elliptic.Curve, x, y, k *big.Int) (*big.Int, *big.Int) {
	return c.ScalarMult(x, y, k.Bytes())
}

// BlindCompressed: compressed encoding of k * decompress(pub). nil if pub does not decode.
func BlindCompressed(c elliptic.Curve, pub []byte, k *big.Int) []byte {
	x, y := elliptic.UnmarshalCompressed(c, pub)
	if x == nil {
		return nil
	}
	bx, by := BlindPoint(c, x, y, k)
	return elliptic.MarshalCompressed(c, bx, by)
}

// HKDF is RFC 5869 extract-and-expand written from crypto/hmac.
func HKDF(newHash func() hash.Hash, ikm, salt, info []byte, n int) []byte {
	if salt == nil {
		salt = make([]byte, newHash().Size())
	}
	ext := hmac.New(newHash, salt)
	ext.Write(ikm)
	prk := ext.Sum(nil)
	var out, t []byte
	for i := byte(1); len(out) < n; i++ {
		m := hmac.New(newHash, prk)
		m.Write(t)
		m.Write(info)
		m.Write([]byte{i})
		t = m.Sum(nil)
		out = append(out, t...)
	}
	return out[:n]
}

// Type3Ctx is the key-blinding context of the rate-limited protocol: token type || label.
func Type3Ctx(label string) []byte { return append([]byte{0x00, 0x03}, label...) }

// IssuerOriginAlias is the anonymous issuer origin id: HKDF-SHA-384 with the client key as
// salt, the client key blinded by the origin index key as input, label IssuerOriginAlias.
func IssuerOriginAlias(clientKeyEnc, indexKeyBytes []byte) []byte {
	c := elliptic.P384()
	k, _ := BlindFactor(c, MinimalBE(indexKeyBytes), Type3Ctx("IssuerBlind"))
	blinded := BlindCompressed(c, clientKeyEnc, k)
	if blinded == nil {
		return nil
	}
	return HKDF(sha512.New384, blinded, clientKeyEnc, []byte("IssuerOriginAlias"), 48)
}

// VerifyP384Raw verifies a fixed-width r||s signature over SHA-384(msg) with crypto/ecdsa.
func VerifyP384Raw(pubCompressed, msg, sig []byte) bool {
	c := elliptic.P384()
	x, y := elliptic.UnmarshalCompressed(c, pubCompressed)
	if x == nil || len(sig) != 96 {
		return false
	}
	d := sha512.Sum384(msg)
	r := new(big.Int).SetBytes(sig[:48])
	s := new(big.Int).SetBytes(sig[48:])
	return stdecdsa.Verify(&stdecdsa.PublicKey{Curve: c, X: x, Y: y}, d[:], r, s)
}

// ---------------------------------------------------------------------------------------
// Rate-limited request: independent parse + HPKE open.

type RLRequest struct {
	RequestKey []byte
	NameKeyID  []byte
	Enc        []byte // encrypted token request (enc || ct)
	Signature  []byte
	SignedPart []byte
}

// ParseRLRequest parses struct { uint16 type=3; request_key[49]; name_key_id[32];
// opaque encrypted<1..2^16-1>; signature[96] } with no trailing bytes.
func ParseRLRequest(b []byte) (*RLRequest, error) {
	if len(b) < 2+49+32+2 {
		return nil, errors.New("short")
	}
	if b[0] != 0 || b[1] != 3 {
		return nil, errors.New("type")
	}
	l := int(b[83])<<8 | int(b[84])
	if l == 0 || len(b) != 85+l+96 {
		return nil, errors.New("length")
	}
	return &RLRequest{RequestKey: b[2:51], NameKeyID: b[51:83], Enc: b[85 : 85+l], Signature: b[85+l:], SignedPart: b[:85+l]}, nil
}

type Inner struct {
	TokenKeyID   byte
	BlindedMsg   []byte
	PaddedOrigin []byte
	Origin       string
}

// EncapKeyParts splits a published EncapKey encoding (directory bytes):
// key_id(1) kem(2) public_key(32 for X25519) kdf(2) aead(2).
func EncapKeyParts(enc []byte) (id byte, kem, kdf, aead uint16, pk []byte, ok bool) {
	if len(enc) != 1+2+32+2+2 {
		return
	}
	return enc[0], uint16(enc[1])<<8 | uint16(enc[2]), uint16(enc[35])<<8 | uint16(enc[36]), uint16(enc[37])<<8 | uint16(enc[38]), enc[3:35], true
}

// OpenRLRequest decrypts the inner request with the name key re-derived from the recorded
// key-generation entropy ikm, with independently built associated data.
func OpenRLRequest(r *RLRequest, encapKeyBytes, ikm []byte) (*Inner, error) {
	id, kem, kdf, aead, _, ok := EncapKeyParts(encapKeyBytes)
	if !ok {
		return nil, errors.New("encap key")
	}
	suite, err := hpke.AssembleCipherSuite(hpke.KEMID(kem), hpke.KDFID(kdf), hpke.AEADID(aead))
	if err != nil {
		return nil, err
	}
	sk, pk, err := suite.KEM.DeriveKeyPair(ikm)
	if err != nil {
		return nil, err
	}
	// the re-derived public key must be the published one
	if string(suite.KEM.SerializePublicKey(pk)) != string(encapKeyBytes[3:35]) {
		return nil, errors.New("re-derived name key differs from the published one")
	}
	kid := sha256.Sum256(encapKeyBytes)
	aad := []byte{id, byte(kem >> 8), byte(kem), byte(kdf >> 8), byte(kdf), byte(aead >> 8), byte(aead), 0x00, 0x03}
	aad = append(aad, r.RequestKey...)
	aad = append(aad, kid[:]...)
	n := suite.KEM.PublicKeySize()
	if len(r.Enc) < n {
		return nil, errors.New("enc short")
	}
	ctx, err := hpke.SetupBaseR(suite, sk, r.Enc[:n], []byte("TokenRequest"))
	if err != nil {
		return nil, err
	}
	pt, err := ctx.Open(aad, r.Enc[n:])
	if err != nil {
		return nil, err
	}
	if len(pt) < 1+256+2 {
		return nil, errors.New("inner short")
	}
	l := int(pt[257])<<8 | int(pt[258])
	if len(pt) < 259+l {
		return nil, errors.New("inner origin length")
	}
	in := &Inner{TokenKeyID: pt[0], BlindedMsg: pt[1:257], PaddedOrigin: pt[259 : 259+l]}
	o := in.PaddedOrigin
	for len(o) > 0 && o[len(o)-1] == 0 {
		o = o[:len(o)-1]
	}
	in.Origin = string(o)
	return in, nil
}
