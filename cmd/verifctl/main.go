// verifctl is the driver and the worker of the deterministic-simulation checks.
//
//	verifctl check <ID> <quick|thorough>     run a property's tier (fans out worker processes)
//	verifctl replay <file>                   re-execute a replay file in a fresh process
//	verifctl worker ...                      (internal) execute a range of plans
//	verifctl exec <file|->                   (internal) execute one plan, print its result
//	verifctl plan <ID> <tier> <idx>          print plan idx of a tier (debugging)
//	verifctl selftest-determinism <ID> <n>   print fingerprints of the first n quick plans
package main

import (
	"encoding/json"
	"fmt"
	"os"
	"runtime"
	"strconv"

	"verif/internal/core"
	"verif/internal/entropy"
	_ "verif/internal/props"
)

func main() {
	if len(os.Args) < 2 {
		fmt.Fprintln(os.Stderr, "usage: verifctl check|replay|worker|exec|plan ...")
		os.Exit(2)
	}
	entropy.Install()
	self, _ := os.Executable()
	d := &core.Driver{Self: self, RaceBin: os.Getenv("VERIF_RACE_BIN"), Workers: runtime.NumCPU()}
	if w := os.Getenv("VERIF_WORKERS"); w != "" {
		if n, err := strconv.Atoi(w); err == nil && n > 0 {
			d.Workers = n
		}
	}
	switch os.Args[1] {
	case "check":
		if len(os.Args) < 4 {
			os.Exit(2)
		}
		os.Exit(d.Check(os.Args[2], os.Args[3]))
	case "replay":
		os.Exit(d.Replay(os.Args[2]))
	case "exec":
		os.Exit(core.ExecMain(os.Args[2]))
	case "worker":
		sc := core.Lookup(os.Args[2])
		if sc == nil {
			os.Exit(2)
		}
		seed, _ := strconv.ParseUint(os.Args[4], 10, 64)
		from, _ := strconv.Atoi(os.Args[5])
		stride, _ := strconv.Atoi(os.Args[6])
		total, _ := strconv.Atoi(os.Args[7])
		core.WorkerMain(sc, os.Args[3], seed, from, stride, total)
	case "plan":
		sc := core.Lookup(os.Args[2])
		idx, _ := strconv.Atoi(os.Args[4])
		p := sc.Generate(core.SeedFromEnv(), os.Args[3], idx)
		p.Index = idx
		b, _ := json.MarshalIndent(p, "", " ")
		fmt.Println(string(b))
	case "fingerprints":
		sc := core.Lookup(os.Args[2])
		n, _ := strconv.Atoi(os.Args[4])
		for i := 0; i < n; i++ {
			p := sc.Generate(core.SeedFromEnv(), os.Args[3], i)
			p.Index = i
			r := core.SafeExecute(sc, p)
			fmt.Printf("%d %s evals=%d viol=%d infra=%q\n", i, r.Fingerprint, r.Evals, len(r.Violations), r.Infra)
		}
	case "list":
		for _, id := range core.AllIDs() {
			fmt.Println(id)
		}
	default:
		os.Exit(2)
	}
}
