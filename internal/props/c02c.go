package props

import (
	"bytes"
	"fmt"

	"github.com/cloudflare/circl/oprf"
	"github.com/cloudflare/pat-go/tokens"
	"github.com/cloudflare/pat-go/tokens/type1"
	"github.com/cloudflare/pat-go/tokens/type2"
	"github.com/cloudflare/pat-go/tokens/type5"

	"verif/internal/conc"
	"verif/internal/core"
	"verif/internal/entropy"
	"verif/internal/fixtures"
	"verif/internal/world"
)

// C02c — the concurrent part of C02: responses (honest, duplicated, corrupted, reordered) that
// reach a client for the same outstanding request at the same time and are finalized by
// several goroutines on copies of one request state. Runs on the C17 engine (seeded
// one-at-a-time scheduler, yield-instrumented scratch copy, -race); violations are reported
// under property C02.
type c02c struct{ base }

func init() { core.Register(c02c{base{"C02c", "fault_enumeration", 160, 4000}}) }

func (c02c) Describe() core.Description {
	return core.Description{
		Race:            true,
		ReportAs:        "C02",
		PlansPerProcess: 8,
		Technique:       "deterministic simulation (C17 engine): several responses for one outstanding request finalized by concurrent goroutines on copies of the same request state under seeded preemption; oracle = finalize succeeds only with tokens that verify and are bound, and every call's result equals its sequential re-execution",
		Rule: "one evaluation = one FinalizeToken(s) call on a shared request state (types 1, 2, 5) with an honest, a second honest (other proof randomness), a bit-flipped or (type 5) element-reordered response, 2-4 tasks, 0-3 preemptions; " +
			"non-trivial = a preemption fired between two finalize calls of which at least one carried a hostile response; distinct = distinct (type, response variants, yield site)",
		Real:        []string{"type1/type2/type5 FinalizeToken(s) on a shared request state", "issuers (to make responses)", "circl oprf/dleq/group/blindrsa (instrumented copies)"},
		Stub:        []string{"task scheduler", "per-task entropy sources", "yield instrumentation (scratch copy only)"},
		Assumptions: []string{"a client application may hand concurrently arriving responses for one request to several goroutines; request states are values, so each call works on a copy that shares the state's internals"},
	}
}

func (c c02c) Generate(seed uint64, tier string, idx int) *core.Plan {
	r := core.NewRand(core.MixI(core.Mix(seed, "C02c/"+tier), idx))
	p := &core.Plan{Prop: "C02c", Seed: r.U64(), Tier: tier, Cfg: map[string]int64{}}
	p.Cfg["type"] = int64([]int{1, 2, 5, 5}[idx%4])
	p.Cfg["keyseed"] = int64(r.Intn(1 << 20))
	p.Cfg["batch"] = int64(r.Pick([]int{2, 3, 4, 8, 16}))
	nt := r.Range(2, 4)
	for t := 0; t < nt; t++ {
		nc := r.Range(1, 2)
		for k := 0; k < nc; k++ {
			// response variant: 0 honest, 1 second honest response, 2 bit flip, 3 reordered (type 5)
			v := r.Pick([]int{0, 0, 1, 2, 3, 3})
			p.Steps = append(p.Steps, core.Step{Op: "call", A: []int64{int64(t), int64(v), int64(r.Intn(1 << 20))}})
		}
	}
	order := r.Perm(nt)
	for _, o := range order {
		p.Steps = append(p.Steps, core.Step{Op: "order", A: []int64{int64(o)}})
	}
	np := r.Range(1, 3)
	for i := 0; i < np; i++ {
		y := r.Pick([]int{r.Intn(12), r.Intn(60), r.Intn(200), r.Intn(600), r.Intn(1500)})
		p.Steps = append(p.Steps, core.Step{Op: "preempt", A: []int64{int64(r.Intn(nt)), int64(y), int64(r.Intn(nt))}})
	}
	return p
}

type c02cState struct {
	typ    int
	st1    type1.BasicPrivateTokenRequestState
	st2    type2.BasicPublicTokenRequestState
	st5    type5.BatchedPrivateTokenRequestState
	nonces [][]byte
	ch     []byte
	keyID  []byte
}

func (s *c02cState) finalize(resp []byte) (toks []tokens.Token, err error) {
	defer func() {
		if r := recover(); r != nil {
			err = fmt.Errorf("panic: %v", r)
		}
	}()
	switch s.typ {
	case 1:
		t, e := s.st1.FinalizeToken(resp)
		return []tokens.Token{t}, e
	case 2:
		t, e := s.st2.FinalizeToken(resp)
		return []tokens.Token{t}, e
	}
	return s.st5.FinalizeTokens(resp)
}

func (c c02c) Execute(p *core.Plan) *core.Result {
	res := core.NewResult()
	log := core.NewEventLog(false)
	typ := int(p.C("type", 1))
	setup := &entropy.Source{}
	setup.Reset(p.Seed)
	entropy.Dispatch = func() *entropy.Source { return setup }
	defer func() { entropy.Dispatch = nil }()
	seed := entropy.Block(p.Seed, 0, "config", fmt.Sprintf("c02c/%d", p.C("keyseed", 0)), 48, 0)
	nr := core.NewRand(p.Seed ^ 0xC02C)
	ch := nr.Bytes(32)
	n := 1
	if typ == 5 {
		n = int(p.C("batch", 3))
	}
	nonces := make([][]byte, n)
	for i := range nonces {
		nonces[i] = nr.Bytes(32)
	}
	var i1 *type1.BasicPrivateIssuer
	var i2 *type2.BasicPublicIssuer
	var i5 *type5.BatchedPrivateIssuer
	var rsaKey = fixtures.RSA(int(p.C("keyseed", 0)) % 8)
	switch typ {
	case 1:
		k, _ := oprf.DeriveKey(oprf.SuiteP384, oprf.VerifiableMode, seed, []byte("verif"))
		i1 = type1.NewBasicPrivateIssuer(k)
	case 2:
		i2 = type2.NewBasicPublicIssuer(rsaKey)
	case 5:
		k, _ := oprf.DeriveKey(oprf.SuiteRistretto255, oprf.VerifiableMode, seed[:32], []byte("verif"))
		i5 = type5.NewBatchedPrivateIssuer(k)
	}
	// mkState creates the request state; the same entropy label gives the same blind each time
	mkState := func() (*c02cState, []byte, error) {
		s := &c02cState{typ: typ, nonces: nonces, ch: ch}
		setup.Begin("client", "c02c/create")
		switch typ {
		case 1:
			st, err := type1.BasicPrivateClient{}.CreateTokenRequest(ch, nonces[0], i1.TokenKeyID(), i1.TokenKey())
			s.st1, s.keyID = st, i1.TokenKeyID()
			if err != nil {
				return nil, nil, err
			}
			return s, st.Request().Marshal(), nil
		case 2:
			st, err := type2.BasicPublicClient{}.CreateTokenRequest(ch, nonces[0], i2.TokenKeyID(), i2.TokenKey())
			s.st2, s.keyID = st, i2.TokenKeyID()
			if err != nil {
				return nil, nil, err
			}
			return s, st.Request().Marshal(), nil
		}
		st, err := type5.BatchedPrivateClient{}.CreateTokenRequest(ch, nonces, i5.TokenKeyID(), i5.TokenKey())
		s.st5, s.keyID = st, i5.TokenKeyID()
		if err != nil {
			return nil, nil, err
		}
		return s, st.Request().Marshal(), nil
	}
	shared, reqBytes, err := mkState()
	if err != nil {
		res.Infra = "request creation failed: " + err.Error()
		return res
	}
	evaluate := func(label string) ([]byte, error) {
		setup.Begin("issuer", label)
		switch typ {
		case 1:
			r := new(type1.BasicPrivateTokenRequest)
			r.Unmarshal(reqBytes)
			return i1.Evaluate(r)
		case 2:
			r := new(type2.BasicPublicTokenRequest)
			r.Unmarshal(reqBytes)
			return i2.Evaluate(r)
		}
		r := new(type5.BatchedPrivateTokenRequest)
		r.Unmarshal(reqBytes)
		return i5.Evaluate(r)
	}
	honest, err1 := evaluate("c02c/eval/a")
	honest2, err2 := evaluate("c02c/eval/b")
	if err1 != nil || err2 != nil {
		res.Infra = "honest evaluation failed"
		return res
	}
	variant := func(v int, x int64) ([]byte, string) {
		switch v {
		case 1:
			return honest2, "honest-2"
		case 2:
			b := append([]byte(nil), honest...)
			bit := int(x) % (8 * len(b))
			b[bit/8] ^= 1 << uint(bit%8)
			return b, "flip1"
		case 3:
			if vs, ls := world.Type5Variants(honest); typ == 5 && len(vs) > 0 {
				k := int(x) % len(vs)
				return vs[k], ls[k]
			}
		}
		return honest, "honest"
	}
	type call struct {
		task    int
		resp    []byte
		label   string
		toks    []tokens.Token
		err     error
		hostile bool
	}
	var calls []*call
	nt := 0
	for _, st := range p.Steps {
		if st.Op == "call" {
			t := int(st.Arg(0, 0))
			if t < 0 || t >= conc.MaxTasks {
				continue
			}
			b, l := variant(int(st.Arg(1, 0)), st.Arg(2, 0))
			calls = append(calls, &call{task: t, resp: b, label: l, hostile: l != "honest" && l != "honest-2"})
			if t+1 > nt {
				nt = t + 1
			}
		}
	}
	if nt == 0 {
		res.Infra = "plan without calls"
		return res
	}
	var order []int
	var pre []conc.Preempt
	for _, st := range p.Steps {
		switch st.Op {
		case "order":
			order = append(order, int(st.Arg(0, 0)))
		case "preempt":
			pre = append(pre, conc.Preempt{Task: int(st.Arg(0, 0)), Yield: int(st.Arg(1, 0)), Next: int(st.Arg(2, 0))})
			res.FaultPlanned("preemption")
		}
	}
	for t := 0; t < nt; t++ {
		found := false
		for _, o := range order {
			found = found || o == t
		}
		if !found {
			order = append(order, t)
		}
	}
	s := conc.New(order, pre)
	for t := 0; t < nt; t++ {
		t := t
		src := &entropy.Source{}
		src.Reset(p.Seed)
		src.YieldHook = func() { conc.Yield(-1) }
		var mine []*call
		for _, cl := range calls {
			if cl.task == t {
				mine = append(mine, cl)
			}
		}
		s.AddTask(src, func() {
			for k, cl := range mine {
				conc.Yield(-2)
				src.Begin(fmt.Sprintf("task%d", t), fmt.Sprintf("op%d", k))
				cl.toks, cl.err = shared.finalize(cl.resp)
			}
		})
	}
	conc.InstallYieldHook()
	entropy.Dispatch = conc.CurrentSource
	s.Run()
	entropy.Dispatch = func() *entropy.Source { return setup }
	if s.Abandoned {
		res.Probe("schedule abandoned: the running task blocked on a lock held by a preempted task")
		res.Fingerprint = "abandoned"
		core.ExitAfterThisPlan = true
		return res
	}
	log.Add("type=%d tasks=%d trace=%v", typ, nt, s.Trace)
	for range s.SiteHits {
		res.FaultFired("preemption", true)
	}
	verify := func(t tokens.Token) error {
		switch typ {
		case 1:
			return i1.Verify(t)
		case 2:
			return world.VerifyPSS(&rsaKey.PublicKey, t)
		}
		return i5.Verify(t)
	}
	sess := &world.Session{Type: typ, Nonces: nonces, Challenge: ch}
	anyHostile := false
	for _, cl := range calls {
		res.Evals++
		anyHostile = anyHostile || cl.hostile
		log.Add("finalize t=%d %s err=%v n=%d", cl.task, cl.label, cl.err != nil, len(cl.toks))
		// S1: success only with tokens that verify and are this request's
		if cl.err == nil {
			if len(cl.toks) != len(nonces) {
				res.Violate(fmt.Sprintf("C02/type%d/concurrent/S1-count", typ), fmt.Sprintf("%d tokens for %d nonces (response %s)", len(cl.toks), len(nonces), cl.label), -1)
			}
			for i, tk := range cl.toks {
				if msg := CheckTokenBinding(sess, i, tk, shared.keyID); msg != "" {
					res.Violate(fmt.Sprintf("C02/type%d/concurrent/S1-binding", typ), fmt.Sprintf("response %s finalized concurrently: token %d: %s", cl.label, i, msg), -1)
				} else if err := verify(tk); err != nil {
					res.Violate(fmt.Sprintf("C02/type%d/concurrent/S1-invalid-token", typ), fmt.Sprintf("finalize of response %s, running concurrently with other finalizations of the same request, returned no error but token %d does not verify: %v", cl.label, i, err), -1)
				}
			}
			if _, must := mustReject([]string{cl.label}); must {
				res.Violate(fmt.Sprintf("C02/type%d/concurrent/S2-accepted/%s", typ, faultClass(cl.label)), fmt.Sprintf("response %s accepted", cl.label), -1)
			}
		}
		// sequential equivalence on a fresh equal state
		fresh, _, err := mkState()
		if err != nil {
			continue
		}
		wt, werr := fresh.finalize(cl.resp)
		same := (werr == nil) == (cl.err == nil) && len(wt) == len(cl.toks)
		if same && werr == nil {
			for i := range wt {
				same = same && bytes.Equal(wt[i].Marshal(), cl.toks[i].Marshal())
			}
		}
		if !same {
			res.Violate(fmt.Sprintf("C02/type%d/concurrent/differs-from-sequential", typ), fmt.Sprintf("finalize of response %s gave (err=%v, %d tokens) concurrently and (err=%v, %d tokens) alone on an equal state", cl.label, cl.err, len(cl.toks), werr, len(wt)), -1)
		}
	}
	// Race reports are deliberately NOT an oracle here: C02 promises nothing about data races
	// on a request state shared by goroutines (C17 covers issuers and keys only), and the
	// unchanged tree does race there (append onto the state's token input; circl's in-place
	// element normalisation). Only the C02 clauses themselves are judged. The reports are
	// drained so that they are not attributed to a later plan.
	if n := len(readRaceReports()); n > 0 {
		res.Probes["race reports on the shared request state (not an oracle for C02)"] += n
	}
	if len(s.SiteHits) > 0 && anyHostile {
		for _, site := range s.SiteHits {
			res.Nontrivial(fmt.Sprintf("t%d/site%d", typ, site))
		}
	}
	res.State(fmt.Sprintf("t%d/%v", typ, s.Trace))
	res.Sample = map[string]any{"type": typ, "tasks": nt, "calls": len(calls), "preemptions_fired": len(s.SiteHits), "trace": s.Trace}
	res.Fingerprint = log.Hash()
	return res
}
