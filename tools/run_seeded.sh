#!/bin/bash
# Runs every seeded change against the check of the property it claims to break (and the extra
# checks listed in seeded/EXTRA) at the quick tier; writes seeded/RESULTS.tsv and INDEX.md.
cd "$(dirname "$0")/.."
: > seeded/RESULTS.tsv
for d in seeded/C??-?; do
  id=$(basename $d); prop=${id%-*}
  extra=$(grep "^$id " seeded/EXTRA 2>/dev/null | cut -d' ' -f2-)
  for c in $prop $extra; do
    line=$(timeout 1500 tools/mutant.sh $d quick $c 2>&1 | grep RESULT | head -1)
    rc=$(echo "$line" | sed -n 's/.* rc=\([0-9]*\).*/\1/p'); sig=$(echo "$line" | sed 's/.* rc=[0-9]* //')
    printf "%s\t%s\t%s\t%s\n" "$id" "$c" "${rc:-?}" "$sig" >> seeded/RESULTS.tsv
  done
done
python3 tools/seeded_index.py
