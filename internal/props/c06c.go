package props

import (
	"bytes"
	"crypto/elliptic"
	"fmt"

	"github.com/cloudflare/pat-go/tokens/type3"

	"verif/internal/conc"
	"verif/internal/core"
	"verif/internal/entropy"
	"verif/internal/fixtures"
	"verif/internal/ref"
	"verif/internal/world"
)

// C06c — the concurrent part of C06: genuine and tampered requests reach one attester (a
// server) at the same time and are checked by several goroutines. Runs on the C17 engine;
// violations are reported under property C06. Only C06's own clause is judged (accept iff the
// reference accepts); race reports are not an oracle (no listed property promises a race-free
// attester).
type c06c struct{ base }

func init() { core.Register(c06c{base{"C06c", "fault_enumeration", 160, 4000}}) }

func (c06c) Describe() core.Description {
	return core.Description{
		Race:            true,
		ReportAs:        "C06",
		PlansPerProcess: 8,
		Technique:       "deterministic simulation (C17 engine): genuine and tampered rate-limited requests checked by concurrent VerifyRequest calls on one shared attester under seeded preemption; oracle = crypto/ecdsa + independent key-blinding reference per call",
		Rule: "one evaluation = one VerifyRequest call among 2-4 concurrent ones on a shared attester; requests are genuine, bit-flipped in a signed field (name key id, ciphertext, request key, signature) or presented with another blind; 0-3 preemptions; " +
			"non-trivial = a preemption fired between a genuine and a tampered verification; distinct = distinct (variant set, yield site)",
		Real:        []string{"type3.RateLimitedAttester.VerifyRequest on a shared attester", "type-3 client (genuine requests)", "request decoder"},
		Stub:        []string{"task scheduler", "per-task entropy sources", "yield instrumentation (scratch copy only)", "recording cache"},
		Assumptions: []string{"an attester is a server-side object that handles requests on several goroutines; its cache implementation is the deployment's (here a map, touched by one task at a time)"},
	}
}

func (c c06c) Generate(seed uint64, tier string, idx int) *core.Plan {
	r := core.NewRand(core.MixI(core.Mix(seed, "C06c/"+tier), idx))
	p := &core.Plan{Prop: "C06c", Seed: r.U64(), Tier: tier, Cfg: map[string]int64{}}
	p.Cfg["keyseed"] = int64(r.Intn(1 << 20))
	nt := r.Range(2, 4)
	for t := 0; t < nt; t++ {
		// variant: 0 genuine, 1 name-key-id bit, 2 ciphertext bit, 3 request-key bit, 4 signature bit, 5 other blind
		v := r.Pick([]int{0, 0, 1, 2, 2, 3, 4, 5})
		if t == 0 {
			v = 0
		}
		p.Steps = append(p.Steps, core.Step{Op: "call", A: []int64{int64(t), int64(v), int64(r.Intn(1 << 16)), int64(r.Intn(2))}})
	}
	order := r.Perm(nt)
	for _, o := range order {
		p.Steps = append(p.Steps, core.Step{Op: "order", A: []int64{int64(o)}})
	}
	np := r.Range(1, 3)
	for i := 0; i < np; i++ {
		y := r.Pick([]int{r.Intn(10), r.Intn(40), r.Intn(120), r.Intn(300)})
		p.Steps = append(p.Steps, core.Step{Op: "preempt", A: []int64{int64(r.Intn(nt)), int64(y), int64(r.Intn(nt))}})
	}
	return p
}

func (c c06c) Execute(p *core.Plan) *core.Result {
	res := core.NewResult()
	log := core.NewEventLog(false)
	setup := &entropy.Source{}
	setup.Reset(p.Seed)
	entropy.Dispatch = func() *entropy.Source { return setup }
	defer func() { entropy.Dispatch = nil }()
	rsaKey := fixtures.RSA(int(p.C("keyseed", 0)) % 8)
	setup.Begin("issuer3", "c06c/new")
	iss := type3.NewRateLimitedIssuer(rsaKey)
	setup.Begin("issuer3", "c06c/origin")
	iss.AddOrigin("origin.example")
	cache := world.NewRecCache()
	att := type3.NewRateLimitedAttester(cache)
	nr := core.NewRand(p.Seed ^ 0xC06C)
	// two genuine requests of two clients (same or different per call)
	type genuine struct {
		wire, blind, pub []byte
	}
	var gens []genuine
	for i := 0; i < 2; i++ {
		secret := nr.Bytes(48)
		secret[0] &= 0x7f
		blind := nr.Bytes(48)
		blind[0] = blind[0]&0x7f | 1
		cl := type3.NewRateLimitedClientFromSecret(secret)
		setup.Begin("client", fmt.Sprintf("c06c/create/%d", i))
		st, err := cl.CreateTokenRequest(nr.Bytes(32), nr.Bytes(32), blind, iss.TokenKeyID(), iss.TokenKey(), "origin.example", iss.NameKey())
		if err != nil {
			res.Infra = "request creation failed: " + err.Error()
			return res
		}
		gens = append(gens, genuine{append([]byte(nil), st.Request().Marshal()...), blind, compressedBase(secret)})
	}
	type call struct {
		task        int
		label       string
		wire, blind []byte
		pub         []byte
		err         error
		want        bool
	}
	var calls []*call
	nt := 0
	ctx := ref.Type3Ctx("ClientBlind")
	for _, st := range p.Steps {
		if st.Op != "call" {
			continue
		}
		t := int(st.Arg(0, 0))
		if t < 0 || t >= conc.MaxTasks {
			continue
		}
		g := gens[int(st.Arg(3, 0))%2]
		wire := append([]byte(nil), g.wire...)
		blind := g.blind
		label := "genuine"
		flip := func(lo, hi int) {
			bit := lo*8 + int(st.Arg(2, 0))%((hi-lo)*8)
			wire[bit/8] ^= 1 << uint(bit%8)
		}
		switch st.Arg(1, 0) {
		case 1:
			flip(51, 83)
			label = "name-key-id-bit"
		case 2:
			flip(85, len(wire)-96)
			label = "ciphertext-bit"
		case 3:
			flip(3, 51)
			label = "request-key-bit"
		case 4:
			flip(len(wire)-96, len(wire))
			label = "signature-bit"
		case 5:
			blind = append([]byte(nil), g.blind...)
			blind[17] ^= 0x08
			label = "other-blind"
		}
		// reference verdict from the bytes
		want := false
		if rq, err := ref.ParseRLRequest(wire); err == nil && ref.VerifyP384Raw(rq.RequestKey, rq.SignedPart, rq.Signature) {
			k, _ := ref.BlindFactor(elliptic.P384(), ref.MinimalBE(blind), ctx)
			want = bytes.Equal(ref.BlindCompressed(elliptic.P384(), g.pub, k), rq.RequestKey)
		}
		calls = append(calls, &call{task: t, label: label, wire: wire, blind: blind, pub: g.pub, want: want})
		if t+1 > nt {
			nt = t + 1
		}
	}
	if nt == 0 {
		res.Infra = "plan without calls"
		return res
	}
	var order []int
	var pre []conc.Preempt
	for _, st := range p.Steps {
		switch st.Op {
		case "order":
			order = append(order, int(st.Arg(0, 0)))
		case "preempt":
			pre = append(pre, conc.Preempt{Task: int(st.Arg(0, 0)), Yield: int(st.Arg(1, 0)), Next: int(st.Arg(2, 0))})
			res.FaultPlanned("preemption")
		}
	}
	for t := 0; t < nt; t++ {
		found := false
		for _, o := range order {
			found = found || o == t
		}
		if !found {
			order = append(order, t)
		}
	}
	s := conc.New(order, pre)
	anon := nr.Bytes(32)
	for t := 0; t < nt; t++ {
		t := t
		src := &entropy.Source{}
		src.Reset(p.Seed)
		src.YieldHook = func() { conc.Yield(-1) }
		var mine []*call
		for _, cl := range calls {
			if cl.task == t {
				mine = append(mine, cl)
			}
		}
		s.AddTask(src, func() {
			for k, cl := range mine {
				conc.Yield(-2)
				src.Begin(fmt.Sprintf("task%d", t), fmt.Sprintf("op%d", k))
				func() {
					defer func() {
						if r := recover(); r != nil {
							cl.err = fmt.Errorf("panic: %v", r)
						}
					}()
					rq := new(type3.RateLimitedTokenRequest)
					if !rq.Unmarshal(cl.wire) {
						cl.err = fmt.Errorf("request decode failed")
						return
					}
					cl.err = att.VerifyRequest(*rq, cl.blind, cl.pub, anon)
				}()
			}
		})
	}
	conc.InstallYieldHook()
	entropy.Dispatch = conc.CurrentSource
	s.Run()
	entropy.Dispatch = func() *entropy.Source { return setup }
	if s.Abandoned {
		res.Probe("schedule abandoned: the running task blocked on a lock held by a preempted task")
		res.Fingerprint = "abandoned"
		core.ExitAfterThisPlan = true
		return res
	}
	log.Add("tasks=%d trace=%v", nt, s.Trace)
	hostile := false
	for _, cl := range calls {
		res.Evals++
		hostile = hostile || cl.label != "genuine"
		log.Add("verify t=%d %s err=%v", cl.task, cl.label, cl.err != nil)
		if cl.err == nil && !cl.want {
			res.Violate("C06/concurrent/accepted-unauthentic/"+cl.label, fmt.Sprintf("VerifyRequest, running concurrently with other verifications on the same attester, accepted a request the reference refuses (variant %s)", cl.label), -1)
		}
		if cl.err != nil && cl.want {
			res.Violate("C06/concurrent/rejected-authentic/"+cl.label, fmt.Sprintf("a genuine request was refused while other verifications ran concurrently: %v", cl.err), -1)
		}
	}
	for _, site := range s.SiteHits {
		res.FaultFired("preemption", true)
		if hostile {
			res.Nontrivial(fmt.Sprintf("site%d", site))
		}
	}
	if n := len(readRaceReports()); n > 0 {
		res.Probes["race reports on the shared attester (not an oracle for C06)"] += n
	}
	res.State(fmt.Sprint(s.Trace))
	res.Sample = map[string]any{"tasks": nt, "calls": len(calls), "preemptions_fired": len(s.SiteHits), "trace": s.Trace}
	res.Fingerprint = log.Hash()
	return res
}
