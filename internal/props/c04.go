package props

import (
	"bytes"
	"encoding/json"
	"fmt"
	"os"
	"reflect"

	"github.com/cloudflare/pat-go/tokens"
	"github.com/cloudflare/pat-go/tokens/batched"
	"github.com/cloudflare/pat-go/tokens/type1"
	"github.com/cloudflare/pat-go/tokens/type2"
	"github.com/cloudflare/pat-go/tokens/type3"
	"github.com/cloudflare/pat-go/tokens/type5"

	"verif/internal/core"
	"verif/internal/simnet"
	"verif/internal/world"
)

// C04 — wire codecs round-trip, re-encode stably and keep request types apart.
type c04 struct{ base }

func init() { core.Register(c04{base{"C04", "exploration", 1500, 40000}}) }

func (c04) Describe() core.Description {
	return core.Description{
		Technique: "deterministic simulation: a codec monitor on the simulated wire of honest and faulted deployment runs checks, for every message and every accepted mutant, round-trip, canonical re-encoding, decoder-object reuse history and cross-type misrouting; the Rust interop vector is replayed as a recorded foreign trace",
		Rule: "one evaluation = one byte string offered to one decoder by the monitor; per run: honest sessions of all four types and a generic batch produce the wire messages (requests, responses, tokens, challenges, encapsulation key, batch lists); each message and 30-60 mutants of it (flipn, setbyte, extend, truncate, length-field rewrites) are offered to its own decoder (clauses A/B incl. object reuse with a different previous value) and to the decoders of the other types and the generic batch decoder (clause C); " +
			"non-trivial = an accepted mutant (clause B population) or a misrouted message; distinct = distinct (structure, mutation, verdict) triples",
		Real:        []string{"all Marshal/Unmarshal* of tokens, type1/2/3/5, batched", "honest clients/issuers producing the values"},
		Stub:        []string{"network + misrouting adversary", "codec monitor", "ten-line response-list encoder written from the draft's struct (the repository has no such function)", "entropy", "arena"},
		Assumptions: []string{"a TokenChallenge's origin list is identified with its comma-joined string (nil and [\"\"] are not distinguished)", "EncapKey values are compared by re-encoding (fields unexported)"},
	}
}

func (c c04) Generate(seed uint64, tier string, idx int) *core.Plan {
	r := core.NewRand(core.MixI(core.Mix(seed, "C04/"+tier), idx))
	p := &core.Plan{Prop: "C04", Seed: r.U64(), Tier: tier, Cfg: map[string]int64{}}
	p.Cfg["spare"] = int64(r.Pick([]int{0, 7, 64}))
	p.Cfg["segmode"] = int64(r.Pick([]int{0, 2, 3}))
	p.Cfg["mutseed"] = int64(r.Intn(1 << 30))
	p.Cfg["mutants"] = int64(r.Range(30, 60))
	for _, t := range []int64{1, 2, 3, 5} {
		key := int64(r.Intn(1 << 20))
		if t == 2 || t == 3 {
			key = int64(r.Intn(8))
		}
		p.Steps = append(p.Steps, core.Step{Op: "iss", A: []int64{t, key}})
	}
	p.Steps = append(p.Steps, core.Step{Op: "client3", A: []int64{int64(r.Intn(1 << 20))}})
	p.Steps = append(p.Steps, core.Step{Op: "origin", A: []int64{0, int64(r.Pick([]int{40, 70, 100, 200})), int64(r.Intn(1 << 20)), 1, 100}})
	p.Steps = append(p.Steps, core.Step{Op: "origin", A: []int64{0, int64(r.Pick([]int{0, 5, 14, 32})), int64(r.Intn(1 << 20)), 1, 101}})
	id := 1
	nthree := 0
	for _, t := range []int64{1, 2, 3, 5, 1, 2, 3, 5, 3, 5} { // several sessions per type: earlier ones supply the "previous value" for reuse (for types 3 and 5 a LONGER one first)
		a := make([]int64, sAnon+1)
		a[sID], a[sType] = int64(id), t
		a[sChKind], a[sChLen], a[sSeed] = 1, int64(r.Pick([]int{0, 40, 80, 300})), int64(r.Intn(1<<30))
		a[sBatch] = int64(r.Pick([]int{1, 2, 3, 5, 16, 17}))
		if t == 5 {
			a[sBatch] = int64([]int{17, 3, 1}[id%3])
		}
		if t == 3 {
			a[sOrigin] = int64(nthree % 2) // long name first, then short: the decoder object shrinks
			nthree++
		}
		a[sDelay] = int64(id) * 2_000_000
		a[sAnon] = -2
		p.Steps = append(p.Steps, core.Step{Op: "sess", A: a})
		id++
	}
	nb := r.Range(1, 5)
	for i := 0; i < nb; i++ {
		p.Steps = append(p.Steps, core.Step{Op: "batchslot", A: []int64{int64(r.Range(1, 2)), int64(r.Intn(1 << 30))}})
	}
	if idx%8 == 0 {
		p.Steps = append(p.Steps, core.Step{Op: "rust"})
	}
	return p
}

// codec describes one wire structure for the monitor.
type codec struct {
	name   string
	decode func(b []byte) (any, bool)
	encode func(v any) []byte
	equal  func(a, b any) bool
	// reuse: one object decodes prev, then b; returns what its Marshal gives afterwards
	reuse func(prev, b []byte) ([]byte, bool)
	// marshal: what the decoded object's own Marshal returns (nil: same as encode)
	marshal func(v any) []byte
	lens    []lenField
}

func safely(f func()) (panicked any) {
	defer func() { panicked = recover() }()
	f()
	return nil
}

func tokenCodec(name string, dec func([]byte) (tokens.Token, error)) codec {
	return codec{name: name,
		decode: func(b []byte) (any, bool) { t, err := dec(b); return t, err == nil },
		encode: func(v any) []byte { return v.(tokens.Token).Marshal() },
		equal:  func(a, b any) bool { return reflect.DeepEqual(a, b) }}
}

func codecs() map[string]codec {
	m := map[string]codec{}
	m["TokenChallenge"] = codec{name: "TokenChallenge",
		decode: func(b []byte) (any, bool) { c, err := tokens.UnmarshalTokenChallenge(b); return c, err == nil },
		encode: func(v any) []byte { return v.(tokens.TokenChallenge).Marshal() },
		equal: func(a, b any) bool {
			x, y := a.(tokens.TokenChallenge), b.(tokens.TokenChallenge)
			return x.TokenType == y.TokenType && x.IssuerName == y.IssuerName && bytes.Equal(x.RedemptionNonce, y.RedemptionNonce) && joinOrigins(x.OriginInfo) == joinOrigins(y.OriginInfo)
		}, lens: []lenField{{2, 2}}}
	m["Token1"] = tokenCodec("Token1", type1.UnmarshalPrivateToken)
	m["Token2"] = tokenCodec("Token2", type2.UnmarshalToken)
	m["Token3"] = tokenCodec("Token3", type3.UnmarshalToken)
	m["Token5"] = tokenCodec("Token5", type5.UnmarshalBatchedPrivateToken)
	m["Request1"] = codec{name: "Request1",
		decode: func(b []byte) (any, bool) {
			r := new(type1.BasicPrivateTokenRequest)
			ok := r.Unmarshal(b)
			return r, ok
		},
		encode: func(v any) []byte {
			// canonical encoding of the *value*: Marshal of a fresh object with the same fields
			r := v.(*type1.BasicPrivateTokenRequest)
			return (&type1.BasicPrivateTokenRequest{TokenKeyID: r.TokenKeyID, BlindedReq: r.BlindedReq}).Marshal()
		},
		marshal: func(v any) []byte { return v.(*type1.BasicPrivateTokenRequest).Marshal() },
		equal: func(a, b any) bool {
			return a.(*type1.BasicPrivateTokenRequest).Equal(*b.(*type1.BasicPrivateTokenRequest))
		},
		reuse: func(prev, b []byte) ([]byte, bool) {
			r := new(type1.BasicPrivateTokenRequest)
			r.Unmarshal(prev)
			r.Marshal()
			if !r.Unmarshal(b) {
				return nil, false
			}
			return r.Marshal(), true
		}}
	m["Request2"] = codec{name: "Request2",
		decode: func(b []byte) (any, bool) {
			r := new(type2.BasicPublicTokenRequest)
			ok := r.Unmarshal(b)
			return r, ok
		},
		encode: func(v any) []byte {
			r := v.(*type2.BasicPublicTokenRequest)
			return (&type2.BasicPublicTokenRequest{TokenKeyID: r.TokenKeyID, BlindedReq: r.BlindedReq}).Marshal()
		},
		marshal: func(v any) []byte { return v.(*type2.BasicPublicTokenRequest).Marshal() },
		equal: func(a, b any) bool {
			return a.(*type2.BasicPublicTokenRequest).Equal(*b.(*type2.BasicPublicTokenRequest))
		},
		reuse: func(prev, b []byte) ([]byte, bool) {
			r := new(type2.BasicPublicTokenRequest)
			r.Unmarshal(prev)
			r.Marshal()
			if !r.Unmarshal(b) {
				return nil, false
			}
			return r.Marshal(), true
		}}
	m["Request3"] = codec{name: "Request3",
		decode: func(b []byte) (any, bool) {
			r := new(type3.RateLimitedTokenRequest)
			ok := r.Unmarshal(b)
			return r, ok
		},
		encode: func(v any) []byte {
			r := v.(*type3.RateLimitedTokenRequest)
			return (&type3.RateLimitedTokenRequest{RequestKey: r.RequestKey, NameKeyID: r.NameKeyID, EncryptedTokenRequest: r.EncryptedTokenRequest, Signature: r.Signature}).Marshal()
		},
		marshal: func(v any) []byte { return v.(*type3.RateLimitedTokenRequest).Marshal() },
		equal: func(a, b any) bool {
			return a.(*type3.RateLimitedTokenRequest).Equal(*b.(*type3.RateLimitedTokenRequest))
		},
		reuse: func(prev, b []byte) ([]byte, bool) {
			r := new(type3.RateLimitedTokenRequest)
			r.Unmarshal(prev)
			r.Marshal()
			if !r.Unmarshal(b) {
				return nil, false
			}
			return r.Marshal(), true
		}, lens: []lenField{{83, 2}}}
	m["Request5"] = codec{name: "Request5",
		decode: func(b []byte) (any, bool) {
			r := new(type5.BatchedPrivateTokenRequest)
			ok := r.Unmarshal(b)
			return r, ok
		},
		encode: func(v any) []byte {
			r := v.(*type5.BatchedPrivateTokenRequest)
			return (&type5.BatchedPrivateTokenRequest{TokenKeyID: r.TokenKeyID, BlindedReq: r.BlindedReq}).Marshal()
		},
		marshal: func(v any) []byte { return v.(*type5.BatchedPrivateTokenRequest).Marshal() },
		equal: func(a, b any) bool {
			return a.(*type5.BatchedPrivateTokenRequest).Equal(*b.(*type5.BatchedPrivateTokenRequest))
		},
		reuse: func(prev, b []byte) ([]byte, bool) {
			r := new(type5.BatchedPrivateTokenRequest)
			r.Unmarshal(prev)
			r.Marshal()
			if !r.Unmarshal(b) {
				return nil, false
			}
			return r.Marshal(), true
		}, lens: []lenField{{3, 'v'}}}
	m["InnerRequest"] = codec{name: "InnerRequest",
		decode:  func(b []byte) (any, bool) { r := new(type3.InnerTokenRequest); ok := r.Unmarshal(b); return r, ok },
		encode:  func(v any) []byte { return innerCanonical(v.(*type3.InnerTokenRequest)) },
		marshal: func(v any) []byte { return v.(*type3.InnerTokenRequest).Marshal() },
		equal: func(a, b any) bool {
			return bytes.Equal(a.(*type3.InnerTokenRequest).Marshal(), b.(*type3.InnerTokenRequest).Marshal())
		},
		reuse: func(prev, b []byte) ([]byte, bool) {
			r := new(type3.InnerTokenRequest)
			r.Unmarshal(prev)
			r.Marshal()
			if !r.Unmarshal(b) {
				return nil, false
			}
			return r.Marshal(), true
		}, lens: []lenField{{257, 2}}}
	m["EncapKey"] = codec{name: "EncapKey",
		decode: func(b []byte) (any, bool) { k, err := type3.UnmarshalEncapKey(b); return k, err == nil },
		encode: func(v any) []byte { return v.(type3.EncapKey).Marshal() },
		equal:  func(a, b any) bool { return bytes.Equal(a.(type3.EncapKey).Marshal(), b.(type3.EncapKey).Marshal()) }}
	m["BatchRequest"] = codec{name: "BatchRequest",
		decode:  func(b []byte) (any, bool) { r := new(batched.BatchedTokenRequest); ok := r.Unmarshal(b); return r, ok },
		encode:  func(v any) []byte { return v.(*batched.BatchedTokenRequest).Marshal() },
		marshal: func(v any) []byte { return v.(*batched.BatchedTokenRequest).Marshal() },
		equal: func(a, b any) bool {
			return bytes.Equal(a.(*batched.BatchedTokenRequest).Marshal(), b.(*batched.BatchedTokenRequest).Marshal())
		},
		reuse: func(prev, b []byte) ([]byte, bool) {
			r := new(batched.BatchedTokenRequest)
			r.Unmarshal(prev)
			r.Marshal()
			if !r.Unmarshal(b) {
				return nil, false
			}
			return r.Marshal(), true
		}, lens: []lenField{{0, 'v'}}}
	m["BatchResponses"] = codec{name: "BatchResponses",
		decode: func(b []byte) (any, bool) { r, err := batched.UnmarshalBatchedTokenResponses(b); return r, err == nil },
		encode: func(v any) []byte { return encodeResponseList(v.([][]byte)) },
		equal: func(a, b any) bool {
			x, y := a.([][]byte), b.([][]byte)
			if len(x) != len(y) {
				return false
			}
			for i := range x {
				if !bytes.Equal(x[i], y[i]) {
					return false
				}
			}
			return true
		}, lens: []lenField{{0, 'v'}}}
	return m
}

func joinOrigins(o []string) string {
	s := ""
	for i, x := range o {
		if i > 0 {
			s += ","
		}
		s += x
	}
	return s
}

// encodeResponseList is the monitor's own encoder of the generic batch response list, written
// from the draft: varint length, then per entry 0x00 (absent) or 0x01 || token_type || body,
// the type being determined by the body length (145 = type 1, 256 = type 2).
func encodeResponseList(entries [][]byte) []byte {
	var body []byte
	for _, e := range entries {
		switch len(e) {
		case 0:
			body = append(body, 0)
		case 145:
			body = append(append(body, 1, 0, 1), e...)
		case 256:
			body = append(append(body, 1, 0, 2), e...)
		default:
			body = append(append(body, 1, 0xff, 0xff), e...)
		}
	}
	return append(putLen('v', uint64(len(body))), body...)
}

type monitor struct {
	res  *core.Result
	cs   map[string]codec
	prev map[string][]byte
	mut  *core.Rand
	n    int
}

// offer runs clauses A/B on bytes b for structure name. honest: b was produced by Marshal of a
// real party (clause A applies: must decode, and re-encode to the same bytes).
func (mo *monitor) offer(name string, b []byte, honest bool, label string) {
	c := mo.cs[name]
	mo.res.Evals++
	var v any
	var ok bool
	if p := safely(func() { v, ok = c.decode(b) }); p != nil {
		mo.res.Probe("decoder panicked on a mutant (C03's business)")
		return
	}
	if !ok {
		if honest {
			mo.res.Violate("C04/A/"+name+"/honest-encoding-rejected", fmt.Sprintf("decoding the encoding of a well-formed %s failed (%d bytes)", name, len(b)), -1)
		}
		mo.res.State(name + "/" + label + "/rejected")
		return
	}
	mo.res.State(name + "/" + label + "/accepted")
	if !honest {
		mo.res.Nontrivial(name + "/accepted-mutant/" + label)
	}
	canon := append([]byte(nil), c.encode(v)...)
	if c.marshal != nil {
		if own := c.marshal(v); !bytes.Equal(own, canon) {
			mo.res.Violate("C04/B/"+name+"/marshal-not-canonical", fmt.Sprintf("%s: after decoding accepted bytes (%d bytes, %s) the object's Marshal returns %d bytes, the canonical encoding of the decoded value has %d", name, len(b), label, len(own), len(canon)), -1)
		}
	}
	if honest && !bytes.Equal(canon, b) {
		mo.res.Violate("C04/A/"+name+"/roundtrip", fmt.Sprintf("%s: decode(encode(v)) re-encodes differently (first difference at byte %d of %d)", name, firstDiff(canon, b), len(b)), -1)
		return
	}
	if len(canon) > len(b) {
		mo.res.Violate("C04/B/"+name+"/canonical-longer", fmt.Sprintf("%s: canonical encoding (%d bytes) longer than the accepted input (%d bytes, %s)", name, len(canon), len(b), label), -1)
	}
	var v2 any
	ok2 := false
	if p := safely(func() { v2, ok2 = c.decode(canon) }); p != nil || !ok2 {
		mo.res.Violate("C04/B/"+name+"/canonical-rejected", fmt.Sprintf("%s: the canonical encoding of an accepted value does not decode (%s)", name, label), -1)
		return
	}
	if !c.equal(v, v2) {
		mo.res.Violate("C04/B/"+name+"/canonical-other-value", fmt.Sprintf("%s: the canonical encoding decodes to a different value (%s)", name, label), -1)
	}
	if c.reuse != nil {
		prev := mo.prev[name]
		if prev != nil && !bytes.Equal(prev, b) {
			var got []byte
			var rok bool
			if p := safely(func() { got, rok = c.reuse(prev, b) }); p == nil {
				if !rok {
					mo.res.Violate("C04/B/"+name+"/reuse-rejected", fmt.Sprintf("%s: an object that held another value rejects bytes a fresh object accepts (%s)", name, label), -1)
				} else if !bytes.Equal(got, canon) {
					mo.res.Violate("C04/B/"+name+"/reuse-stale-marshal", fmt.Sprintf("%s: Marshal after Unmarshal on an object that held another value returns %s, not the canonical encoding %s of the new value (%s)", name, core.H(got), core.H(canon), label), -1)
				}
				mo.res.Probe("object reuse with a different previous value exercised")
			}
		}
		if honest {
			mo.prev[name] = b
		}
	}
}

// mutants offers a family of mutants of b to structure name.
func (mo *monitor) mutants(name string, b []byte, n int) {
	c := mo.cs[name]
	for i := 0; i < n; i++ {
		var v []byte
		label := ""
		switch mo.mut.Intn(7) {
		case 0:
			v, label = first(world.Mutate("flipn", []int64{int64(mo.mut.Range(1, 3)), int64(mo.mut.Intn(1 << 30))}, b)), "flipn"
		case 1:
			v, label = first(world.Mutate("setbyte", []int64{int64(mo.mut.Intn(1 << 16)), int64(mo.mut.Pick([]int{0, 1, 0x3f, 0x40, 0x80, 0xc0, 0xff}))}, b)), "setbyte"
		case 2:
			v, label = first(world.Mutate("extend", []int64{int64(mo.mut.Pick([]int{1, 2, 32, 49})), int64(mo.mut.Intn(256))}, b)), "extend"
		case 3:
			v, label = first(world.Mutate("trunc", []int64{int64(mo.mut.Intn(1 << 16))}, b)), "trunc"
		case 4, 5, 6:
			if len(c.lens) == 0 {
				v, label = first(world.Mutate("flip1", []int64{int64(mo.mut.Intn(64))}, b)), "flip-head"
				break
			}
			f := c.lens[mo.mut.Intn(len(c.lens))]
			if f.off >= len(b) {
				continue
			}
			old := 1
			if f.kind == 2 {
				old = 2
			} else if f.kind == 'v' {
				old = 1 << (b[f.off] >> 6)
			}
			if f.off+old > len(b) {
				continue
			}
			// re-encode the same length non-minimally, or another length with a matching body
			var cur uint64
			for k := 0; k < old; k++ {
				x := b[f.off+k]
				if k == 0 && f.kind == 'v' {
					x &= 0x3f
				}
				cur = cur<<8 | uint64(x)
			}
			rest := b[f.off+old:]
			switch mo.mut.Intn(3) {
			case 0:
				if f.kind != 'v' {
					continue
				}
				width := []int{2, 4, 8}[mo.mut.Intn(3)]
				enc := make([]byte, width)
				x := cur
				for k := width - 1; k >= 0; k-- {
					enc[k] = byte(x)
					x >>= 8
				}
				enc[0] |= map[int]byte{2: 0x40, 4: 0x80, 8: 0xc0}[width]
				v, label = append(append(append([]byte(nil), b[:f.off]...), enc...), rest...), "nonminimal-varint"
			case 1:
				nl := uint64(mo.mut.Pick([]int{0, 32, 49, 64, 96, 256, 260}))
				body := make([]byte, nl)
				copy(body, rest)
				v, label = append(append(append([]byte(nil), b[:f.off]...), putLen(f.kind, nl)...), body...), "relength"
			case 2:
				nl := lenBoundary[mo.mut.Intn(len(lenBoundary))]
				v, label = append(append(append([]byte(nil), b[:f.off]...), putLen(f.kind, nl)...), rest...), "lenfield"
			}
		}
		if v == nil || bytes.Equal(v, b) {
			continue
		}
		mo.offer(name, v, false, label)
	}
}

func first(x [][]byte) []byte {
	if len(x) == 0 {
		return nil
	}
	return x[0]
}

// misroute offers request bytes b (of token type typ) to every other request decoder and,
// for types the generic batch does not carry, to the batch decoder inside a one-element list.
func (mo *monitor) misroute(typ int, b []byte, label string) {
	for _, t := range []int{1, 2, 3, 5} {
		if t == typ {
			continue
		}
		name := fmt.Sprintf("Request%d", t)
		var ok bool
		mo.res.Evals++
		if p := safely(func() { _, ok = mo.cs[name].decode(b) }); p != nil {
			mo.res.Probe("decoder panicked on a misrouted message (C03's business)")
			continue
		}
		mo.res.Nontrivial(fmt.Sprintf("misroute/%d->%d/%s", typ, t, label))
		if ok {
			mo.res.Violate(fmt.Sprintf("C04/C/%s-accepts-type%d", name, typ), fmt.Sprintf("the type-%d request decoder accepted a message tagged with type %d (%s)", t, typ, label), -1)
		}
	}
	if typ != 1 && typ != 2 {
		list := append(putLen('v', uint64(len(b))), b...)
		var ok bool
		mo.res.Evals++
		if p := safely(func() { _, ok = mo.cs["BatchRequest"].decode(list) }); p == nil && ok {
			mo.res.Violate(fmt.Sprintf("C04/C/BatchRequest-accepts-type%d", typ), fmt.Sprintf("the generic batch decoder accepted a request of type %d (%s)", typ, label), -1)
		}
		mo.res.Nontrivial(fmt.Sprintf("misroute/%d->batch/%s", typ, label))
	}
}

func (c c04) Execute(p *core.Plan) *core.Result {
	res := core.NewResult()
	w := BuildWorld(p, res, false)
	mo := &monitor{res: res, cs: codecs(), prev: map[string][]byte{}, mut: core.NewRand(uint64(p.C("mutseed", 1)))}
	nm := int(p.C("mutants", 30))
	seenChallenge := map[int]bool{}
	swept := map[int]bool{}
	// the monitor sits on the wire: it sees every message about to be sent
	w.Adversary = func(m *simnet.Msg) []world.Sending {
		s := w.Sessions[m.Sess]
		switch m.Kind {
		case world.KReq, world.KAttReq:
			name := fmt.Sprintf("Request%d", s.Type)
			mo.offer(name, m.Payload, true, "honest")
			mo.mutants(name, m.Payload, nm)
			mo.misroute(s.Type, m.Payload, "honest")
			// an unknown type code
			u := append([]byte(nil), m.Payload...)
			u[0], u[1] = 0x12, 0x34
			mo.misroute(0x1234, u, "unknown-type-code")
			if p.Index%50 == 0 && !swept[s.Type] {
				// every one of the 65 535 other type tags on this message, at its own decoder
				swept[s.Type] = true
				name := fmt.Sprintf("Request%d", s.Type)
				for tag := 0; tag < 1<<16; tag++ {
					if tag == s.Type {
						continue
					}
					u[0], u[1] = byte(tag>>8), byte(tag)
					var ok bool
					if pv := safely(func() { _, ok = mo.cs[name].decode(u) }); pv == nil && ok {
						mo.res.Violate(fmt.Sprintf("C04/C/%s-accepts-foreign-tag", name), fmt.Sprintf("the type-%d request decoder accepted a message tagged %#04x", s.Type, tag), -1)
						break
					}
				}
				mo.res.Evals += 1<<16 - 1
				mo.res.Probe("type-tag space swept exhaustively on one message")
			}
			if !seenChallenge[s.ID] && len(s.Challenge) > 0 {
				seenChallenge[s.ID] = true
				if _, err := tokens.UnmarshalTokenChallenge(s.Challenge); err == nil {
					mo.offer("TokenChallenge", s.Challenge, true, "honest")
					mo.mutants("TokenChallenge", s.Challenge, nm/2)
				}
			}
		case world.KTok:
			name := fmt.Sprintf("Token%d", s.Type)
			mo.offer(name, m.Payload, true, "honest")
			mo.mutants(name, m.Payload, nm/3)
		}
		return []world.Sending{{M: m, Delay: 0}}
	}
	StartAll(w)
	if !w.Net.Run() {
		res.Infra = "step budget exhausted"
	}
	// structures that do not travel as their own message in the session flows
	for _, is := range w.I3 {
		mo.offer("EncapKey", is.NameKeyBytes, true, "honest")
		mo.mutants("EncapKey", is.NameKeyBytes, nm/2)
		// well-formed keys that advertise other registered KDF / AEAD identifiers
		for _, kdf := range []byte{1, 2, 3} {
			for _, aead := range []byte{1, 2, 3} {
				k := append([]byte(nil), is.NameKeyBytes...)
				k[len(k)-3], k[len(k)-1] = kdf, aead
				mo.offer("EncapKey", k, true, fmt.Sprintf("honest-kdf%d-aead%d", kdf, aead))
			}
		}
	}
	r := core.NewRand(uint64(p.C("mutseed", 1)) ^ 0x1221)
	for i := 0; i < 3; i++ {
		inner := append([]byte{byte(r.Intn(256))}, r.Bytes(256)...)
		ol := r.Pick([]int{0, 32, 64, 96})
		inner = append(inner, byte(ol>>8), byte(ol))
		inner = append(inner, r.Bytes(ol)...)
		mo.offer("InnerRequest", inner, true, "honest")
		mo.mutants("InnerRequest", inner, nm/3)
	}
	// TokenChallenge values with varied shapes
	for i := 0; i < 4; i++ {
		ch := tokens.TokenChallenge{TokenType: uint16(r.Pick([]int{1, 2, 3, 5, 0xffff})), IssuerName: OriginName(int64(r.Intn(1<<20)), r.Range(1, 300)),
			RedemptionNonce: r.Bytes(r.Pick([]int{0, 32})), OriginInfo: []string{OriginName(int64(r.Intn(1<<20)), r.Range(0, 80))}}
		for k := r.Intn(3); k > 0; k-- {
			ch.OriginInfo = append(ch.OriginInfo, OriginName(int64(r.Intn(1<<20)), r.Range(1, 30)))
		}
		enc := ch.Marshal()
		mo.offer("TokenChallenge", enc, true, "honest")
		if dec, err := tokens.UnmarshalTokenChallenge(enc); err != nil || !mo.cs["TokenChallenge"].equal(dec, ch) {
			res.Violate("C04/A/TokenChallenge/value", "decoded TokenChallenge differs from the value that was encoded", -1)
		}
		mo.mutants("TokenChallenge", enc, nm/3)
	}
	// generic batch: request list and response list
	c.batch(w, p, mo, nm)
	for _, st := range p.Steps {
		if st.Op == "rust" {
			c.rust(mo)
		}
	}
	res.Sample = map[string]any{"decoder_calls": res.Evals, "mutants_per_message": nm, "sessions": len(w.Order)}
	finish(w, res)
	return res
}

func (c c04) batch(w *world.World, p *core.Plan, mo *monitor, nm int) {
	var reqs []tokens.TokenRequestWithDetails
	w.Ent.Begin("client", "c04/batch")
	for _, st := range p.Steps {
		if st.Op != "batchslot" {
			continue
		}
		r := core.NewRand(uint64(st.Arg(1, 0)))
		if st.Arg(0, 1) == 1 {
			s, err := type1.BasicPrivateClient{}.CreateTokenRequest(r.Bytes(32), r.Bytes(32), w.I1[0].KeyID, w.I1[0].Iss.TokenKey())
			if err == nil {
				reqs = append(reqs, s.Request())
			}
		} else {
			s, err := type2.BasicPublicClient{}.CreateTokenRequest(r.Bytes(32), r.Bytes(32), w.I2[0].KeyID, &w.I2[0].Key.PublicKey)
			if err == nil {
				reqs = append(reqs, s.Request())
			}
		}
	}
	if len(reqs) == 0 {
		return
	}
	br, err := batched.NewBasicClient().CreateTokenRequest(reqs)
	if err != nil {
		mo.res.Infra = "batch create: " + err.Error()
		return
	}
	wire := append([]byte(nil), br.Marshal()...)
	mo.offer("BatchRequest", wire, true, "honest")
	mo.mutants("BatchRequest", wire, nm)
	// the previous value for reuse: a batch of the first request only
	if one, err := batched.NewBasicClient().CreateTokenRequest(reqs[:1]); err == nil {
		mo.offer("BatchRequest", append([]byte(nil), one.Marshal()...), true, "honest")
		mo.offer("BatchRequest", wire, true, "honest")
	}
	bi := batched.NewBasicBatchedIssuer(world.Adapter1{I: w.I1[0].Iss}, world.Adapter2{I: w.I2[0].Iss})
	w.Ent.Begin("batchissuer", "c04/batch")
	dec := new(batched.BatchedTokenRequest)
	if !dec.Unmarshal(wire) {
		return
	}
	resp, err := bi.EvaluateBatch(dec)
	if err != nil {
		return
	}
	mo.offer("BatchResponses", resp, true, "honest")
	mo.mutants("BatchResponses", resp, nm)
}

type rustVec struct {
	TokenRequest  string `json:"token_request"`
	TokenResponse string `json:"token_response"`
}

// rust replays the Rust implementation's recorded batch messages as a foreign trace.
func (c c04) rust(mo *monitor) {
	data, err := os.ReadFile(core.RepoDir() + "/tokens/batched/batched-issuance-test-vectors-rust.json")
	if err != nil {
		mo.res.Infra = "cannot read the Rust interop vectors: " + err.Error()
		return
	}
	var vs []rustVec
	if err := json.Unmarshal(data, &vs); err != nil {
		mo.res.Infra = "cannot parse the Rust interop vectors: " + err.Error()
		return
	}
	for i, v := range vs {
		rq, rs := core.Unhex(v.TokenRequest), core.Unhex(v.TokenResponse)
		mo.offer("BatchRequest", rq, true, fmt.Sprintf("rust-vector-%d", i))
		mo.offer("BatchResponses", rs, true, fmt.Sprintf("rust-vector-%d", i))
		mo.res.Probe("Rust interop vector replayed through the batch decoders")
	}
}

// innerCanonical encodes the value of an inner token request with the monitor's own encoder
// (fields are unexported: read through reflection): key id || blinded_msg[256] || u16-prefixed
// padded origin.
func innerCanonical(r *type3.InnerTokenRequest) []byte {
	v := reflect.ValueOf(r).Elem()
	var out []byte
	out = append(out, byte(v.FieldByName("tokenKeyId").Uint()))
	out = append(out, v.FieldByName("blindedMsg").Bytes()...)
	po := v.FieldByName("paddedOrigin").Bytes()
	out = append(out, byte(len(po)>>8), byte(len(po)))
	return append(out, po...)
}
