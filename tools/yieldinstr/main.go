// yieldinstr copies /repo and the circl module to a scratch directory and inserts yield
// points with go/ast: a call verifyield.Y(site) before every statement of every function
// body in the repository's non-test packages, and at every function entry in the circl
// packages on the issuance path. Nothing under /repo is modified; the scratch copy is removed
// by the caller when the check ends.
//
//	yieldinstr -repo /repo -circl <module cache dir> -out <scratch>
package main

import (
	"bytes"
	"encoding/json"
	"flag"
	"fmt"
	"go/ast"
	"go/build"
	"go/format"
	"go/parser"
	"go/token"
	"io"
	"os"
	"path/filepath"
	"strings"
)

const yieldImport = "github.com/cloudflare/circl/verifyield"

var (
	sites   []string
	stmtLvl bool
)

func main() {
	repo := flag.String("repo", "/repo", "repository working tree")
	circl := flag.String("circl", "", "circl module directory (module cache)")
	out := flag.String("out", "", "scratch directory")
	flag.Parse()
	if *circl == "" || *out == "" {
		fmt.Fprintln(os.Stderr, "usage: yieldinstr -repo /repo -circl <dir> -out <scratch>")
		os.Exit(2)
	}
	// 1. copy trees
	must(copyTree(*repo, filepath.Join(*out, "patgo"), func(rel string, d os.DirEntry) bool {
		if d.IsDir() {
			return rel != ".git" && !strings.HasPrefix(rel, ".git/")
		}
		return !strings.HasSuffix(rel, "_test.go")
	}))
	must(copyTree(*circl, filepath.Join(*out, "circl"), func(rel string, d os.DirEntry) bool {
		return !strings.HasSuffix(rel, "_test.go")
	}))
	// 2. the yield package lives in the circl copy so that both modules and the harness can import it
	yd := filepath.Join(*out, "circl", "verifyield")
	must(os.MkdirAll(yd, 0o755))
	must(os.WriteFile(filepath.Join(yd, "y.go"), []byte(`// Package verifyield is the yield point called by instrumented scratch copies (verification only).
package verifyield

// Hook is set once, before any task starts.
var Hook func(site int32)

// NoYieldHook brackets regions in which the running task must not be preempted.
var NoYieldHook func(d int32)

// NoYield marks entry (+1) / exit (-1) of a sync.Once body.
func NoYield(d int32) {
	if h := NoYieldHook; h != nil {
		h(d)
	}
}

// Y is a yield point.
func Y(site int32) {
	if h := Hook; h != nil {
		h(site)
	}
}
`), 0o644))
	// 3. instrument
	stmtLvl = true
	for _, pkg := range []string{"tokens", "tokens/type1", "tokens/type2", "tokens/type3", "tokens/type5", "tokens/batched", "ecdsa", "ed25519", "util", "quicwire"} {
		must(instrumentDir(filepath.Join(*out, "patgo", pkg), "patgo/"+pkg))
	}
	stmtLvl = false
	// function-entry yields inside the ed25519 fork's curve package: its package-level tables are
	// built on first use (a preemption must be able to land inside that)
	must(instrumentDir(filepath.Join(*out, "patgo", "ed25519/internal/edwards25519"), "patgo/ed25519/internal/edwards25519"))
	for _, pkg := range []string{"group", "expander"} {
		dir := filepath.Join(*out, "circl", pkg)
		if _, err := os.Stat(dir); err == nil {
			must(instrumentDir(dir, "circl/"+pkg))
		}
	}
	// the small protocol packages of circl get statement-level yields like the repository:
	// shared hash states and caches handed to them by pat-go are used statement by statement
	stmtLvl = true
	for _, pkg := range []string{"oprf", "zk/dleq", "blindsign/blindrsa", "blindsign/blindrsa/internal/common", "blindsign/blindrsa/internal/keys"} {
		dir := filepath.Join(*out, "circl", pkg)
		if _, err := os.Stat(dir); err == nil {
			must(instrumentDir(dir, "circl/"+pkg))
		}
	}
	b, _ := json.Marshal(sites)
	must(os.WriteFile(filepath.Join(*out, "sites.json"), b, 0o644))
	fmt.Printf("yieldinstr: %d yield sites\n", len(sites))
}

func must(err error) {
	if err != nil {
		fmt.Fprintln(os.Stderr, "yieldinstr:", err)
		os.Exit(1)
	}
}

func copyTree(src, dst string, keep func(rel string, d os.DirEntry) bool) error {
	return filepath.WalkDir(src, func(path string, d os.DirEntry, err error) error {
		if err != nil {
			return err
		}
		rel, _ := filepath.Rel(src, path)
		if rel == "." {
			return os.MkdirAll(dst, 0o755)
		}
		if !keep(rel, d) {
			if d.IsDir() {
				return filepath.SkipDir
			}
			return nil
		}
		if d.IsDir() {
			return os.MkdirAll(filepath.Join(dst, rel), 0o755)
		}
		if !d.Type().IsRegular() {
			return nil
		}
		in, err := os.Open(path)
		if err != nil {
			return err
		}
		defer in.Close()
		outf, err := os.OpenFile(filepath.Join(dst, rel), os.O_CREATE|os.O_WRONLY|os.O_TRUNC, 0o644)
		if err != nil {
			return err
		}
		defer outf.Close()
		_, err = io.Copy(outf, in)
		return err
	})
}

func instrumentDir(dir, label string) error {
	ents, err := os.ReadDir(dir)
	if err != nil {
		return err
	}
	for _, e := range ents {
		name := e.Name()
		if e.IsDir() || !strings.HasSuffix(name, ".go") || strings.HasSuffix(name, "_test.go") {
			continue
		}
		// randutil.go (MaybeReadByte) is left alone: its select picks a branch by the runtime's
		// own coin and the branches have different numbers of statements, so yields inside it
		// would shift every later yield index of the call from run to run
		if name == "randutil.go" {
			continue
		}
		// files whose build constraints do not match this platform are left alone
		if ok, err := build.Default.MatchFile(dir, name); err != nil || !ok {
			continue
		}
		if err := instrumentFile(filepath.Join(dir, name), label+"/"+name); err != nil {
			return fmt.Errorf("%s: %w", name, err)
		}
	}
	return nil
}

func hasDirective(fd *ast.FuncDecl) bool {
	if fd.Doc == nil {
		return false
	}
	for _, c := range fd.Doc.List {
		if strings.HasPrefix(c.Text, "//go:") {
			return true
		}
	}
	return false
}

func instrumentFile(path, label string) error {
	fset := token.NewFileSet()
	f, err := parser.ParseFile(fset, path, nil, parser.ParseComments)
	if err != nil {
		return err
	}
	// a file that carries compiler directives (//go:noescape, //go:linkname, ...) is left alone:
	// the rewriter drops comments, and directives must not be lost
	for _, cg := range f.Comments {
		for _, c := range cg.List {
			if c.Pos() > f.Package && strings.HasPrefix(c.Text, "//go:") {
				return nil
			}
		}
	}
	n := 0
	// sync.Once bodies: x.Do(func() {...}) gets a no-preemption bracket
	ast.Inspect(f, func(nd ast.Node) bool {
		ce, ok := nd.(*ast.CallExpr)
		if !ok || len(ce.Args) != 1 {
			return true
		}
		sel, ok := ce.Fun.(*ast.SelectorExpr)
		fl, ok2 := ce.Args[0].(*ast.FuncLit)
		if !ok || !ok2 || sel.Sel.Name != "Do" || fl.Body == nil {
			return true
		}
		call := func(v string) *ast.CallExpr {
			return &ast.CallExpr{Fun: &ast.SelectorExpr{X: ast.NewIdent("verifyield"), Sel: ast.NewIdent("NoYield")}, Args: []ast.Expr{&ast.BasicLit{Kind: token.INT, Value: v}}}
		}
		fl.Body.List = append([]ast.Stmt{&ast.ExprStmt{X: call("1")}, &ast.DeferStmt{Call: call("-1")}}, fl.Body.List...)
		n++
		return true
	})
	for _, d := range f.Decls {
		fd, ok := d.(*ast.FuncDecl)
		if !ok || fd.Body == nil || hasDirective(fd) {
			continue
		}
		if stmtLvl {
			n += instrumentBlock(fset, fd.Body, label)
		} else {
			fd.Body.List = append([]ast.Stmt{yieldStmt(fset, fd.Body.Lbrace, label)}, fd.Body.List...)
			n++
		}
	}
	if n == 0 {
		return nil
	}
	// add the import
	imp := &ast.ImportSpec{Path: &ast.BasicLit{Kind: token.STRING, Value: fmt.Sprintf("%q", yieldImport)}}
	gd := &ast.GenDecl{Tok: token.IMPORT, Specs: []ast.Spec{imp}}
	f.Decls = append([]ast.Decl{gd}, f.Decls...)
	// detach comments from positions (they would be re-attached wrongly around inserted nodes):
	// keep only the package doc and build constraints, which precede the package clause
	var keep []*ast.CommentGroup
	for _, cg := range f.Comments {
		if cg.End() < f.Package {
			keep = append(keep, cg)
		}
	}
	f.Comments = keep
	var buf bytes.Buffer
	if err := format.Node(&buf, fset, f); err != nil {
		return err
	}
	return os.WriteFile(path, buf.Bytes(), 0o644)
}

func yieldStmt(fset *token.FileSet, pos token.Pos, label string) ast.Stmt {
	id := len(sites)
	sites = append(sites, fmt.Sprintf("%s:%d", label, fset.Position(pos).Line))
	return &ast.ExprStmt{X: &ast.CallExpr{
		Fun:  &ast.SelectorExpr{X: ast.NewIdent("verifyield"), Sel: ast.NewIdent("Y")},
		Args: []ast.Expr{&ast.BasicLit{Kind: token.INT, Value: fmt.Sprint(id)}},
	}}
}

func instrumentList(fset *token.FileSet, list []ast.Stmt, label string) ([]ast.Stmt, int) {
	n := 0
	out := make([]ast.Stmt, 0, 2*len(list))
	for _, st := range list {
		n += instrumentStmt(fset, st, label)
		out = append(out, yieldStmt(fset, st.Pos(), label), st)
		n++
	}
	return out, n
}

func instrumentBlock(fset *token.FileSet, b *ast.BlockStmt, label string) int {
	if b == nil {
		return 0
	}
	var n int
	b.List, n = instrumentList(fset, b.List, label)
	return n
}

// instrumentStmt descends into nested blocks (and function literals inside statements are
// left alone: they run on the same task).
func instrumentStmt(fset *token.FileSet, st ast.Stmt, label string) int {
	n := 0
	switch s := st.(type) {
	case *ast.BlockStmt:
		n += instrumentBlock(fset, s, label)
	case *ast.IfStmt:
		n += instrumentBlock(fset, s.Body, label)
		if s.Else != nil {
			n += instrumentStmt(fset, s.Else, label)
		}
	case *ast.ForStmt:
		n += instrumentBlock(fset, s.Body, label)
	case *ast.RangeStmt:
		n += instrumentBlock(fset, s.Body, label)
	case *ast.SwitchStmt:
		n += instrumentCases(fset, s.Body, label)
	case *ast.TypeSwitchStmt:
		n += instrumentCases(fset, s.Body, label)
	case *ast.SelectStmt:
		for _, c := range s.Body.List {
			if cc, ok := c.(*ast.CommClause); ok {
				var k int
				cc.Body, k = instrumentList(fset, cc.Body, label)
				n += k
			}
		}
	case *ast.LabeledStmt:
		n += instrumentStmt(fset, s.Stmt, label)
	}
	return n
}

func instrumentCases(fset *token.FileSet, body *ast.BlockStmt, label string) int {
	n := 0
	for _, c := range body.List {
		if cc, ok := c.(*ast.CaseClause); ok {
			var k int
			cc.Body, k = instrumentList(fset, cc.Body, label)
			n += k
		}
	}
	return n
}
