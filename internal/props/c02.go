package props

import (
	"bytes"
	"fmt"
	"strings"

	"verif/internal/core"
	"verif/internal/world"
)

// C02 — a client only ever outputs tokens that verify and belong to its own request.
type c02 struct{ base }

func init() { core.Register(c02{base{"C02", "fault_enumeration", 400, 8000}}) }

func (c02) Describe() core.Description {
	return core.Description{
		Technique: "deterministic simulation with a byzantine issuer/network on the response hop: every single-bit flip of an honest response enumerated, swap between outstanding sessions, foreign-key responses, type-5 batch omission/duplication/transposition; oracle = finalize succeeds only with a token that verifies and is bound to this request",
		Rule: "one evaluation = one response delivered to a client with an outstanding request and finalized; cases are generated per run from VERIF_SEED: a deployment with 2 issuers per type, 2-5 sessions, and one fault family on the response hop (enumflip over every bit position / swap / misroute to a foreign key / enumt5 / trunc / extend / dup); " +
			"non-trivial = a corrupted or foreign response reached finalize while the request was outstanding; distinct = distinct (type, fault label incl. bit position or element index)",
		Real:        []string{"type1/2/3/5 FinalizeToken(s)", "all issuers (honest responses)", "request/response codecs", "type3 attester"},
		Stub:        []string{"byzantine network on the response hop", "entropy", "arena", "directory", "origin"},
		Assumptions: []string{"a single-bit change of a wire-format group element/scalar/integer yields a different or undecodable value, so accepting it has probability ~2^-128 for a sound client", "Issuer.Verify (types 1,5) and crypto/rsa.VerifyPSS (types 2,3) as token-validity reference"},
	}
}

func (c c02) Generate(seed uint64, tier string, idx int) *core.Plan {
	r := core.NewRand(core.MixI(core.Mix(seed, "C02/"+tier), idx))
	p := &core.Plan{Prop: "C02", Seed: r.U64(), Tier: tier, Cfg: map[string]int64{}}
	p.Cfg["spare"] = int64(r.Pick([]int{0, 7, 64}))
	p.Cfg["segmode"] = int64(r.Pick([]int{0, 2}))
	p.Cfg["jitter"] = int64(r.Pick([]int{0, 3_000_000}))
	p.Cfg["bufreuse"] = int64(r.Intn(2))
	p.Cfg["scramble"] = int64(r.Intn(256))
	// one token type per run (keeps runs short and diverse); two issuers of it
	t := []int{1, 2, 3, 5}[idx%4]
	p.Cfg["type"] = int64(t)
	base := int64(r.Intn(1 << 20))
	for i := 0; i < 2; i++ {
		key := 2*base + int64(i) // the two issuers have distinct keys by construction
		if t == 2 || t == 3 {
			key = int64((idx/4 + i*3) % 8)
		}
		p.Steps = append(p.Steps, core.Step{Op: "iss", A: []int64{int64(t), key}})
	}
	if t == 3 {
		p.Steps = append(p.Steps, core.Step{Op: "client3", A: []int64{int64(r.Intn(1 << 20))}})
		for i := 0; i < 2; i++ { // the same origin name at both issuers
			p.Steps = append(p.Steps, core.Step{Op: "origin", A: []int64{int64(i), 14, 4242, 1, int64(i)}})
		}
	}
	nsess := r.Range(2, 4)
	family := r.PickS([]string{"enumflip", "enumflip", "swap", "misroute", "truncext", "dup", "noise"})
	if t == 5 && r.Bool(50) {
		family = "enumt5"
	}
	for i := 0; i < nsess; i++ {
		a := make([]int64, sAnon+1)
		a[sID], a[sType], a[sIss] = int64(i+1), int64(t), 0
		a[sChKind], a[sChLen], a[sSeed] = int64(r.Intn(2)), int64(chLens[r.Intn(len(chLens))]), int64(r.Intn(1<<30))
		if family == "swap" && i == 1 && r.Bool(50) {
			a[sSeed] = p.Steps[len(p.Steps)-1].A[sSeed] // same nonce+challenge as session 1: only the blind differs
			a[sChKind], a[sChLen] = p.Steps[len(p.Steps)-1].A[sChKind], p.Steps[len(p.Steps)-1].A[sChLen]
		}
		a[sBatch] = int64(r.Pick([]int{1, 2, 3, 4, 5}))
		a[sOrigin], a[sAnon] = 0, -2
		a[sDelay] = int64(i) * 1000
		p.Steps = append(p.Steps, core.Step{Op: "sess", A: a})
	}
	respHop := int64(world.KResp)
	if t == 3 {
		respHop = world.KAttResp
	}
	if t == 5 && idx%32 == 7 {
		// a batch large enough for a four-byte length prefix (>= 512 tokens): every bit of the prefix
		for i := range p.Steps {
			if p.Steps[i].Op == "sess" && p.Steps[i].A[sID] == 1 {
				p.Steps[i].A[sBatch] = int64(512 + r.Intn(8))
			}
		}
		family = "prefix-of-large-batch"
		p.Steps = append(p.Steps, core.Step{Op: "fault", S: []string{"enumfliphead"}, A: []int64{1, respHop, 4}})
	}
	switch family {
	case "enumflip":
		stride := int64(1)
		if tier == "quick" && t == 1 {
			stride = 2 // type-1 finalize costs ~1.5 ms; the other half is covered by the next run's offset
		}
		p.Steps = append(p.Steps, core.Step{Op: "fault", S: []string{"enumflip"}, A: []int64{1, respHop, stride, int64(idx / 4 % 2)}})
	case "enumt5":
		p.Steps = append(p.Steps, core.Step{Op: "fault", S: []string{"enumt5"}, A: []int64{1, respHop}})
	case "swap":
		p.Steps = append(p.Steps, core.Step{Op: "fault", S: []string{"swap"}, A: []int64{1, respHop, 2}})
		p.Steps = append(p.Steps, core.Step{Op: "fault", S: []string{"swap"}, A: []int64{2, respHop, 1}})
	case "misroute":
		// the request is evaluated by the other issuer (another key): STALEKEY / foreign response
		reqHop := int64(world.KReq)
		if t == 3 {
			reqHop = world.KIssReq
		}
		p.Steps = append(p.Steps, core.Step{Op: "fault", S: []string{"misroute"}, A: []int64{1, reqHop, 1}})
	case "truncext":
		p.Steps = append(p.Steps, core.Step{Op: "fault", S: []string{"enumtrunc"}, A: []int64{1, respHop}})
		p.Steps = append(p.Steps, core.Step{Op: "fault", S: []string{"extend"}, A: []int64{2, respHop, int64(r.Pick([]int{1, 2, 32, 96})), int64(r.Intn(256))}})
	case "dup":
		p.Steps = append(p.Steps, core.Step{Op: "fault", S: []string{"dup"}, A: []int64{1, respHop, 1_000_000}})
	case "noise":
		for i := 0; i < nsess; i++ {
			kind := r.PickS([]string{"flip1", "flipn", "setbyte", "garbage"})
			p.Steps = append(p.Steps, core.Step{Op: "fault", S: []string{kind}, A: []int64{int64(i + 1), respHop, int64(r.Intn(1 << 16)), int64(r.Intn(256))}})
		}
	}
	return p
}

// faultClass maps a fault label to its class (for signatures): flip1@123 -> flip1.
func faultClass(l string) string {
	if i := strings.IndexAny(l, "@"); i >= 0 {
		return l[:i]
	}
	return l
}

// mustReject reports whether the property says a response carrying these fault labels has to
// be refused (single-bit corruption, foreign key or foreign request, batch omission /
// duplication / reordering). Truncation and extension are not in that list: for them only
// the "token verifies and is this request's" clause applies.
func mustReject(labels []string) (string, bool) {
	for _, l := range labels {
		switch faultClass(l) {
		case "flip1", "swap", "misroute", "t5drop", "t5dup", "t5swap":
			return l, true
		}
	}
	return "", false
}

func (c c02) Execute(p *core.Plan) *core.Result {
	res := core.NewResult()
	w := BuildWorld(p, res, false)
	world.NewPlanAdversary(w)
	misrouted := map[int]bool{}
	w.Observers = append(w.Observers, func(o *world.Outcome) {
		s := o.S
		if o.Op == "evaluate" && o.Msg != nil {
			for _, l := range o.Msg.Faults {
				if l == "misroute" {
					misrouted[s.ID] = true
				}
			}
		}
		if o.Op != "finalize" {
			return
		}
		res.Evals++
		labels := append([]string(nil), o.Msg.Faults...)
		if misrouted[s.ID] {
			labels = append(labels, "misroute")
		}
		honest := o.Msg.Orig == nil || bytes.Equal(o.Msg.Orig, o.Msg.Payload)
		for _, l := range labels {
			if l == "swap" || l == "misroute" {
				honest = false
			}
		}
		if o.Msg.Orig != nil && bytes.Equal(o.Msg.Orig, o.Msg.Payload) {
			labels = nil // the mutation did not change the bytes
		}
		if !honest {
			cls := "hostile"
			if len(labels) > 0 {
				cls = labels[len(labels)-1]
			}
			res.Nontrivial(fmt.Sprintf("t%d/%s", s.Type, cls))
		}
		if o.Panic != nil {
			res.Probe("finalize panicked on a hostile response (C03's business)")
			return
		}
		if o.Err != nil {
			if honest {
				res.Violate(fmt.Sprintf("C02/type%d/honest-response-rejected", s.Type), fmt.Sprintf("session %d: %v", s.ID, o.Err), -1)
			}
			return
		}
		// finalize succeeded: S1 — every token must verify under the key the request was made
		// for and be bound to this request
		keyID := hostKeyID(w, s)
		if len(o.Tokens) != len(s.Nonces) {
			res.Violate(fmt.Sprintf("C02/type%d/S1-count/%s", s.Type, faultClass(strings.Join(labels, "+"))), fmt.Sprintf("session %d: %d tokens for %d nonces (faults %v)", s.ID, len(o.Tokens), len(s.Nonces), labels), -1)
			return
		}
		for i, t := range o.Tokens {
			if msg := CheckTokenBinding(s, i, t, keyID); msg != "" {
				res.Violate(fmt.Sprintf("C02/type%d/S1-binding/%s", s.Type, faultClass(strings.Join(labels, "+"))), fmt.Sprintf("session %d token %d after faults %v: %s", s.ID, i, labels, msg), -1)
				return
			}
			if _, err := w.VerifyTokenBytes(s.Type, s.Iss, t.Marshal()); err != nil {
				res.Violate(fmt.Sprintf("C02/type%d/S1-invalid-token/%s", s.Type, faultClass(strings.Join(labels, "+"))), fmt.Sprintf("session %d: finalize succeeded after faults %v but token %d does not verify under the request's issuer key: %v", s.ID, labels, i, err), -1)
				return
			}
		}
		// S2 — a response the property lists as "rejected" was accepted (token valid and bound)
		if l, must := mustReject(labels); must && !honest {
			if faultClass(l) == "flip1" {
				var bit int
				fmt.Sscanf(l, "flip1@%d", &bit)
				l = "flip1/" + respField(s.Type, o.Msg.Orig, bit)
			}
			res.Violate(fmt.Sprintf("C02/type%d/S2-accepted/%s", s.Type, sigLabel(l)), fmt.Sprintf("session %d: response with fault %s accepted (resulting token is valid and bound: malleable encoding)", s.ID, l), -1)
		}
	})
	StartAll(w)
	if !w.Net.Run() {
		res.Infra = "step budget exhausted"
	}
	// tokens the clients still hold at the end of the run must still be valid and their own
	for _, id := range w.Order {
		s := w.Sessions[id]
		for i, t := range s.Tokens {
			if msg := CheckTokenBinding(s, i, t, hostKeyID(w, s)); msg != "" {
				res.Violate(fmt.Sprintf("C02/type%d/held-token-changed", s.Type), fmt.Sprintf("session %d token %d, re-checked at the end of the run: %s", s.ID, i, msg), -1)
			} else if _, err := w.VerifyTokenBytes(s.Type, s.Iss, t.Marshal()); err != nil {
				res.Violate(fmt.Sprintf("C02/type%d/held-token-changed", s.Type), fmt.Sprintf("session %d token %d no longer verifies at the end of the run: %v", s.ID, i, err), -1)
			}
		}
	}
	res.Sample = map[string]any{"type": p.C("type", 0), "faults": faultSteps(p), "finalize_calls": res.Evals}
	finish(w, res)
	return res
}

func faultSteps(p *core.Plan) []string {
	var out []string
	for _, st := range p.Steps {
		if st.Op == "fault" {
			out = append(out, fmt.Sprintf("%s%v", st.S[0], st.A))
		}
	}
	return out
}

// respField names the field of a response that bit (MSB-first index into the encoding)
// falls into, and the bit's index within that field — so that signatures do not depend on the
// batch size.
func respField(typ int, honest []byte, bit int) string {
	by := bit / 8
	in := func(name string, start, n int) string {
		return fmt.Sprintf("%s/bit%d", name, bit-8*start)
	}
	switch typ {
	case 1:
		switch {
		case by < 49:
			return in("element", 0, 49)
		case by < 97:
			return in("proof-c", 49, 48)
		}
		return in("proof-s", 97, 48)
	case 2:
		return in("blind-sig", 0, 256)
	case 3:
		if by < 16 {
			return in("response-nonce", 0, 16)
		}
		return in("aead-ct", 16, len(honest)-16)
	case 5:
		if len(honest) == 0 {
			return "?"
		}
		pl := 1 << (honest[0] >> 6)
		body := len(honest) - pl - 64
		switch {
		case by < pl:
			return in("length-prefix", 0, pl)
		case by < pl+body:
			e := (by - pl) / 32
			return fmt.Sprintf("element/bit%d", bit-8*(pl+32*e))
		case by < pl+body+32:
			return in("proof-c", pl+body, 32)
		}
		return in("proof-s", pl+body+32, 32)
	}
	return "?"
}
