#!/bin/bash
# Runs the repository's pinned test suite with the verif guard OFF (no build tag) and prints a
# pass/fail summary. Used as MANIFEST.hooks.baseline_off_cmd and after every fix:/hook commit.
cd /repo || exit 2
export GOPROXY=off
out=$(go test -mod=mod -json -vet=off -count=1 -timeout 25m ./... 2>&1)
pass=$(echo "$out" | grep -c '"Action":"pass".*"Test"')
fail=$(echo "$out" | grep -c '"Action":"fail"')
echo "baseline: pass=$pass fail=$fail"
if [ "$fail" != "0" ]; then echo "$out" | grep '"Action":"fail"' | head; exit 1; fi
[ "$pass" -ge 166 ] || { echo "fewer than 166 passing tests"; exit 1; }
