package props

import (
	"bytes"
	stdecdsa "crypto/ecdsa"
	stded "crypto/ed25519"
	"crypto/elliptic"
	"crypto/sha512"
	"fmt"
	"os"
	"regexp"
	"sort"
	"strings"

	"github.com/cloudflare/circl/oprf"
	"github.com/cloudflare/pat-go/ecdsa"
	"github.com/cloudflare/pat-go/ed25519"
	"github.com/cloudflare/pat-go/tokens"
	"github.com/cloudflare/pat-go/tokens/batched"
	"github.com/cloudflare/pat-go/tokens/type1"
	"github.com/cloudflare/pat-go/tokens/type2"
	"github.com/cloudflare/pat-go/tokens/type3"
	"github.com/cloudflare/pat-go/tokens/type5"
	"github.com/cloudflare/pat-go/util"

	"verif/internal/conc"
	"verif/internal/core"
	"verif/internal/entropy"
	"verif/internal/fixtures"
	"verif/internal/world"
)

// C17 — issuers, verifiers and keys can be shared between goroutines.
type c17 struct{ base }

func init() { core.Register(c17{base{"C17", "exploration", 512, 12000}}) }

func (c17) Describe() core.Description {
	return core.Description{
		Race:            true,
		PlansPerProcess: 4,
		Technique:       "deterministic simulation of caller goroutines under a seeded one-at-a-time task scheduler (raw-pipe hand-off invisible to the race detector, go/ast-inserted yield points in scratch copies of /repo and four circl packages, PCT-style preemption lists), built with -race; oracles: race detector reports, byte-equality of every call's result with a sequential re-execution on a fresh equal object under the same entropy, worker death",
		Rule: "one case = one schedule: 2-6 tasks x 1-4 calls on one shared object (type-1/2/3/5 issuer, generic batch issuer, ECDSA key on one of four curves, Ed25519 key; cold or used-before) with 0-3 preemptions 'task t at its j-th yield -> run task u' or run-to-completion in a drawn order; sweep and pair profiles walk the preempted yield index with the plan index (pair: a multi-phase call preempted at call-relative yield j, one whole foreign call of the same family in the window); one evaluation = one call compared with its sequential re-execution; " +
			"non-trivial = a schedule in which a preemption separated two calls on the shared object (it fired); distinct = distinct (object kind, operation pair around the switch, yield site) triples",
		Real:        []string{"all issuers' Evaluate/EvaluateBatch/Verify/TokenKey/TokenKeyID/NameKey", "ecdsa Sign/SignASN1/Verify/VerifyASN1/Blind*/Unblind*/BlindKeySign*", "ed25519 Sign/Verify/Blind*/BlindKeySign*", "circl oprf, zk/dleq, group, blindrsa (instrumented copies)"},
		Stub:        []string{"task scheduler", "per-task entropy sources", "yield instrumentation (scratch copy only)", "batched.Issuer adapters"},
		Assumptions: []string{"race reports pass through the detector's bounded per-goroutine history: a given schedule reports a given race with probability ~0.95 (replay retries up to 5 times); absence of reports is sampling, not proof", "dependency code is instrumented only in oprf, zk/dleq, group, blindrsa, expander; races deep inside uninstrumented code rely on operation-boundary adjacency", "if the instrumented build fails the check falls back to operation-boundary and entropy-read yields and says so"},
	}
}

// object kinds
const (
	oIss1 = iota
	oIss2
	oIss3
	oIss5
	oBatch
	oECDSA
	oEd
	oKinds
)

var objName = []string{"type1-issuer", "type2-issuer", "type3-issuer", "type5-issuer", "batch-issuer", "ecdsa-key", "ed25519-key"}

// operations per kind (names only; see call())
var objOps = [][]string{
	oIss1:  {"Evaluate", "Verify", "TokenKey", "TokenKeyID"},
	oIss2:  {"Evaluate", "TokenKey", "TokenKeyID"},
	oIss3:  {"Evaluate", "TokenKey", "TokenKeyID", "NameKey"},
	oIss5:  {"Evaluate", "Verify", "TokenKey", "TokenKeyID"},
	oBatch: {"EvaluateBatch"},
	oECDSA: {"Sign", "SignASN1", "Verify", "VerifyASN1", "BlindPublicKeyWithContext", "UnblindPublicKeyWithContext", "BlindKeySignWithContext", "PrivateKey.Sign", "Public", "VerifyOtherKey"},
	oEd:    {"Sign", "Verify", "BlindPublicKeyWithContext", "UnblindPublicKeyWithContext", "BlindKeySignWithContext", "Public", "VerifyOtherKey", "VerifyOtherKey"},
}

func (c c17) Generate(seed uint64, tier string, idx int) *core.Plan {
	r := core.NewRand(core.MixI(core.Mix(seed, "C17/"+tier), idx))
	p := &core.Plan{Prop: "C17", Seed: r.U64(), Tier: tier, Cfg: map[string]int64{}}
	kind := idx % oKinds
	p.Cfg["kind"] = int64(kind)
	p.Cfg["curve"] = int64(r.Intn(4))
	p.Cfg["keyseed"] = int64(r.Intn(1 << 20))
	p.Cfg["warm"] = int64(r.Intn(3) / 2) // 1/3 of the runs use an object that was used before
	p.Cfg["disjoint"] = 0
	if idx%29 == 28 {
		p.Cfg["disjoint"] = 1 // null run: every task has its own object; must be silent
	}
	// cold profile: with 16 workers and 4 plans per process, plans with (idx/16)%4 == 0 are the
	// first plan of a fresh process, where package-level tables and sync.Once state see their
	// first use. These plans aim at that: one call per task from the operations that touch such
	// state, and a preemption of the task that runs first, early in its call.
	cold := (idx/16)%4 == 0 && (kind == oEd || kind == oECDSA) && idx%29 != 28
	coldOps := map[int][]int{oEd: {0, 4, 0, 4, 2}, oECDSA: {0, 1, 6, 7, 0}}
	nt := r.Range(2, 6)
	if kind == oIss3 || kind == oBatch {
		nt = r.Range(2, 4)
	}
	if cold {
		p.Cfg["warm"] = 0
		nt = r.Range(2, 4)
	}
	total := 0
	for t := 0; t < nt; t++ {
		nc := r.Range(1, 4)
		if r.Bool(50) {
			nc = r.Range(1, 2)
		}
		if cold {
			nc = 1
		}
		for k := 0; k < nc; k++ {
			op := r.Intn(len(objOps[kind]))
			if cold {
				op = coldOps[kind][r.Intn(len(coldOps[kind]))]
			}
			p.Steps = append(p.Steps, core.Step{Op: "call", A: []int64{int64(t), int64(op), int64(r.Intn(1 << 30))}})
			total++
		}
	}
	// schedule: run-to-completion in a drawn order, or 1-3 preemptions
	order := r.Perm(nt)
	for _, o := range order {
		p.Steps = append(p.Steps, core.Step{Op: "order", A: []int64{int64(o)}})
	}
	sweep := !cold && (idx/7)%4 == 1 && p.Cfg["disjoint"] == 0
	// pair profile (atomicity of multi-phase calls): task A makes pairN calls of an operation
	// that derives the same per-(key, context) value more than once inside one call, task B
	// makes pairN calls of the same family with other contexts; A's c-th call is preempted at
	// its call-relative yield j_c, B runs exactly one whole call, A resumes. j_c walks through
	// 0..n*stride-1 with the plan index, so every yield point inside A's call — including one
	// between a "check" and a "fetch" that are separately locked — gets exactly this window.
	pairOps := map[int][2][]int{oECDSA: {{6}, {4, 5, 6}}, oEd: {{4}, {2, 3, 4}}, oIss3: {{0}, {0}}}
	// The n yield indices of one plan are spread stride apart (not consecutive): a yield inside
	// a locked region makes the plan unfinishable (B blocks on the lock A holds, the plan is
	// abandoned and its later calls never run), and such yields sit right before the windows
	// this profile is after. Their order inside the plan rotates from cycle to cycle for the
	// same reason. quick: q = 0..17 covers every j < 144; thorough: every j < 256, 13 times.
	const pairN = 8
	stride := 32
	if tier == "quick" {
		stride = 18
	}
	if po, ok := pairOps[kind]; ok && !cold && (idx/7)%4 == 3 && p.Cfg["disjoint"] == 0 {
		p.Steps = p.Steps[:0]
		p.Cfg["warm"] = 0
		n := pairN
		if kind == oIss3 {
			n = 3
		}
		for c := 0; c < n; c++ {
			p.Steps = append(p.Steps, core.Step{Op: "call", A: []int64{0, int64(po[0][r.Intn(len(po[0]))]), int64(r.Intn(1 << 30))}})
			p.Steps = append(p.Steps, core.Step{Op: "call", A: []int64{1, int64(po[1][r.Intn(len(po[1]))]), int64(r.Intn(1 << 30))}})
		}
		p.Steps = append(p.Steps, core.Step{Op: "order", A: []int64{0}}, core.Step{Op: "order", A: []int64{1}})
		q := idx / 28
		for c := 0; c < n; c++ {
			slot := (c + q/stride) % n
			p.Steps = append(p.Steps, core.Step{Op: "preempt", A: []int64{0, int64(q%stride + slot*stride), 1, int64(c)}})
			if c+1 < n {
				p.Steps = append(p.Steps, core.Step{Op: "preempt", A: []int64{1, 0, 0, int64(c + 1)}})
			}
		}
		return p
	}
	if sweep {
		// sweep profile: two tasks, one call each, the first-running task preempted at yield j,
		// where j walks through 0..319 with the plan index — every yield point of the first call
		// gets its turn (PCT-style coverage instead of a random draw)
		p.Steps = p.Steps[:0]
		nt = 2
		for t := 0; t < 2; t++ {
			p.Steps = append(p.Steps, core.Step{Op: "call", A: []int64{int64(t), int64(r.Intn(len(objOps[kind]))), int64(r.Intn(1 << 30))}})
		}
		order = r.Perm(2)
		for _, o := range order {
			p.Steps = append(p.Steps, core.Step{Op: "order", A: []int64{int64(o)}})
		}
		p.Steps = append(p.Steps, core.Step{Op: "preempt", A: []int64{int64(order[0]), int64((idx / 28) % 320), int64(order[1])}})
	} else if cold {
		p.Steps = append(p.Steps, core.Step{Op: "preempt", A: []int64{int64(order[0]), int64(r.Intn(700)), int64(order[1])}})
		if r.Bool(50) {
			p.Steps = append(p.Steps, core.Step{Op: "preempt", A: []int64{int64(order[1]), int64(r.Intn(700)), int64(order[0])}})
		}
	} else if !r.Bool(25) {
		np := r.Range(1, 3)
		for i := 0; i < np; i++ {
			// yield index biased to small values (soon after a call starts) and to ranges seen per op
			y := r.Pick([]int{r.Intn(4), r.Intn(12), r.Intn(40), r.Intn(140), r.Intn(400)})
			p.Steps = append(p.Steps, core.Step{Op: "preempt", A: []int64{int64(r.Intn(nt)), int64(y), int64(r.Intn(nt))}})
		}
	}
	return p
}

type c17obj struct {
	kind   int
	i1     *type1.BasicPrivateIssuer
	i2     *type2.BasicPublicIssuer
	i2b    *type2.BasicPublicIssuer
	i3     *type3.RateLimitedIssuer
	i5     *type5.BatchedPrivateIssuer
	bi     *batched.BasicBatchedIssuer
	ek     *ecdsa.PrivateKey
	ebk    *ecdsa.PrivateKey
	edk    ed25519.PrivateKey
	edpub  ed25519.PublicKey
	edpub2 ed25519.PublicKey // a second verification key (other tasks verify under it)
	ek2    *ecdsa.PrivateKey
	edbl   []byte
}

type c17arg struct {
	req1   *type1.BasicPrivateTokenRequest
	req2   *type2.BasicPublicTokenRequest
	req3   []byte
	req5   *type5.BatchedPrivateTokenRequest
	breq   *batched.BatchedTokenRequest
	tok    tokens.Token
	digest []byte
	sigR   []byte // r||s or DER or ed25519 signature
	der    []byte
	ctx    []byte
	msg    []byte
}

type c17env struct {
	p       *core.Plan
	kind    int
	cv      elliptic.Curve
	keyseed int64
	fix     int
	i3seed  string
}

// mkObj constructs a fresh object equal to every other object of this plan.
func (e *c17env) mkObj(src *entropy.Source) *c17obj {
	o := &c17obj{kind: e.kind}
	seed := entropy.Block(e.p.Seed, 0, "config", fmt.Sprintf("c17/%d", e.keyseed), 48, 0)
	switch e.kind {
	case oIss1, oBatch:
		k, err := oprf.DeriveKey(oprf.SuiteP384, oprf.VerifiableMode, seed, []byte("verif"))
		if err != nil {
			panic(err)
		}
		o.i1 = type1.NewBasicPrivateIssuer(k)
		if e.kind == oBatch {
			// two issuers per token type; requests go to either (distinct truncated key ids are
			// ensured by walking the fixture pool)
			o.i2 = type2.NewBasicPublicIssuer(fixtures.RSA(e.fix))
			for d := 1; d < 8; d++ {
				o.i2b = type2.NewBasicPublicIssuer(fixtures.RSA(e.fix + d))
				if a, b := o.i2.TokenKeyID(), o.i2b.TokenKeyID(); a[31] != b[31] {
					break
				}
			}
			o.bi = batched.NewBasicBatchedIssuer(world.Adapter2{I: o.i2}, world.Adapter1{I: o.i1}, world.Adapter2{I: o.i2b})
		}
	case oIss2:
		o.i2 = type2.NewBasicPublicIssuer(fixtures.RSA(e.fix))
	case oIss3:
		// the issuer's name key comes from entropy: same label => same key for every equal object
		src.Begin("issuer3", "c17/new")
		o.i3 = type3.NewRateLimitedIssuer(fixtures.RSA(e.fix))
		ik, _ := ecdsa.CreateKey(elliptic.P384(), seed)
		o.i3.AddOriginWithIndexKey("origin.example", ik)
	case oIss5:
		k, err := oprf.DeriveKey(oprf.SuiteRistretto255, oprf.VerifiableMode, seed[:32], []byte("verif"))
		if err != nil {
			panic(err)
		}
		o.i5 = type5.NewBatchedPrivateIssuer(k)
	case oECDSA:
		w := (e.cv.Params().N.BitLen() + 7) / 8
		d := append([]byte(nil), seed...)
		for len(d) < w {
			d = append(d, seed...)
		}
		d = d[:w]
		d[0] = 0
		d[1] |= 1
		o.ek, _ = ecdsa.CreateKey(e.cv, d)
		b := entropy.Block(e.p.Seed, 0, "config", "c17/blind", w, 0)
		b[0] = 0
		b[1] |= 1
		o.ebk, _ = ecdsa.CreateKey(e.cv, b)
		d2 := entropy.Block(e.p.Seed, 0, "config", "c17/ec2", w, 0)
		d2[0] = 0
		d2[1] |= 1
		o.ek2, _ = ecdsa.CreateKey(e.cv, d2)
	case oEd:
		// derived with crypto/ed25519 (byte-identical) so that constructing the object does not
		// touch the fork's package-level tables: their first use happens inside the tasks
		o.edk = ed25519.PrivateKey(stded.NewKeyFromSeed(seed[:32]))
		o.edpub = append(ed25519.PublicKey(nil), o.edk[32:]...)
		k2 := stded.NewKeyFromSeed(entropy.Block(e.p.Seed, 0, "config", "c17/ed2", 32, 0))
		o.edpub2 = append(ed25519.PublicKey(nil), k2[32:]...)
		o.edbl = entropy.Block(e.p.Seed, 0, "config", "c17/edblind", 32, 0)
	}
	return o
}

// mkArg prepares the per-call arguments of call (op, seed) with a helper object (never the
// shared one, so that a cold shared object stays cold).
func (e *c17env) mkArg(src *entropy.Source, helper *c17obj, op string, seed int64, label string) (*c17arg, error) {
	a := &c17arg{}
	r := core.NewRand(uint64(seed))
	ch, nonce := r.Bytes(32), r.Bytes(32)
	src.Begin("setup", label)
	switch e.kind {
	case oIss1:
		st, err := type1.BasicPrivateClient{}.CreateTokenRequest(ch, nonce, helper.i1.TokenKeyID(), helper.i1.TokenKey())
		if err != nil {
			return nil, err
		}
		a.req1 = st.Request()
		if op == "Verify" {
			resp, err := helper.i1.Evaluate(st.Request())
			if err != nil {
				return nil, err
			}
			if a.tok, err = st.FinalizeToken(resp); err != nil {
				return nil, err
			}
		}
	case oIss2:
		st, err := type2.BasicPublicClient{}.CreateTokenRequest(ch, nonce, helper.i2.TokenKeyID(), helper.i2.TokenKey())
		if err != nil {
			return nil, err
		}
		a.req2 = st.Request()
	case oIss5:
		n := 1 + int(seed%3)
		nonces := make([][]byte, n)
		for i := range nonces {
			nonces[i] = r.Bytes(32)
		}
		st, err := type5.BatchedPrivateClient{}.CreateTokenRequest(ch, nonces, helper.i5.TokenKeyID(), helper.i5.TokenKey())
		if err != nil {
			return nil, err
		}
		a.req5 = st.Request()
		if op == "Verify" {
			resp, err := helper.i5.Evaluate(st.Request())
			if err != nil {
				return nil, err
			}
			toks, err := st.FinalizeTokens(resp)
			if err != nil {
				return nil, err
			}
			a.tok = toks[0]
		}
	case oIss3:
		secret := r.Bytes(48)
		secret[0] &= 0x7f
		cl := type3.NewRateLimitedClientFromSecret(secret)
		blind := r.Bytes(48)
		blind[0] = blind[0]&0x7f | 1
		st, err := cl.CreateTokenRequest(ch, nonce, blind, helper.i3.TokenKeyID(), helper.i3.TokenKey(), "origin.example", helper.i3.NameKey())
		if err != nil {
			return nil, err
		}
		a.req3 = append([]byte(nil), st.Request().Marshal()...)
	case oBatch:
		s1, err := type1.BasicPrivateClient{}.CreateTokenRequest(ch, nonce, helper.i1.TokenKeyID(), helper.i1.TokenKey())
		if err != nil {
			return nil, err
		}
		tgt := helper.i2
		if seed%2 == 1 {
			tgt = helper.i2b // served by the second type-2 issuer of the batch issuer
		}
		s2, err := type2.BasicPublicClient{}.CreateTokenRequest(ch, nonce, tgt.TokenKeyID(), tgt.TokenKey())
		if err != nil {
			return nil, err
		}
		a.breq, err = batched.NewBasicClient().CreateTokenRequest([]tokens.TokenRequestWithDetails{s1.Request(), s2.Request()})
		if err != nil {
			return nil, err
		}
	case oECDSA:
		dg := sha512.Sum512(r.Bytes(16))
		a.digest = dg[:]
		a.ctx = r.Bytes(int(seed % 20))
		// signatures for the verify calls are made with crypto/ecdsa (the fork's package-level
		// state must see its first use inside the tasks)
		stdKey := &stdecdsa.PrivateKey{PublicKey: stdecdsa.PublicKey{Curve: e.cv, X: helper.ek.X, Y: helper.ek.Y}, D: helper.ek.D}
		rr, ss, err := stdecdsa.Sign(entropy.Reader(), stdKey, a.digest)
		if err != nil {
			return nil, err
		}
		a.der, err = stdecdsa.SignASN1(entropy.Reader(), stdKey, a.digest)
		if err != nil {
			return nil, err
		}
		std2 := &stdecdsa.PrivateKey{PublicKey: stdecdsa.PublicKey{Curve: e.cv, X: helper.ek2.X, Y: helper.ek2.Y}, D: helper.ek2.D}
		if a.sigR, err = stdecdsa.SignASN1(entropy.Reader(), std2, a.digest); err != nil {
			return nil, err
		}
		a.tok.Nonce, a.tok.Context = rr.Bytes(), ss.Bytes()
	case oEd:
		a.msg = r.Bytes(int(seed % 100))
		a.ctx = r.Bytes(int(seed % 20))
		a.sigR = stded.Sign(stded.PrivateKey(helper.edk), a.msg)
		a.der = stded.Sign(stded.NewKeyFromSeed(entropy.Block(e.p.Seed, 0, "config", "c17/ed2", 32, 0)), a.msg)
	}
	return a, nil
}

func errStr(err error) string {
	if err == nil {
		return ""
	}
	return "ERR:" + err.Error()
}

// call executes operation op of the object's kind and returns its result bytes.
func (e *c17env) call(o *c17obj, op string, a *c17arg) (out []byte) {
	defer func() {
		if r := recover(); r != nil {
			out = []byte(fmt.Sprintf("PANIC:%v", r))
		}
	}()
	switch e.kind {
	case oIss1:
		switch op {
		case "Evaluate":
			b, err := o.i1.Evaluate(a.req1)
			return append(b, errStr(err)...)
		case "Verify":
			return []byte("verify:" + errStr(o.i1.Verify(a.tok)))
		case "TokenKey":
			b, err := o.i1.TokenKey().MarshalBinary()
			return append(b, errStr(err)...)
		case "TokenKeyID":
			return o.i1.TokenKeyID()
		}
	case oIss2:
		switch op {
		case "Evaluate":
			b, err := o.i2.Evaluate(a.req2)
			return append(b, errStr(err)...)
		case "TokenKey":
			b, err := util.MarshalTokenKeyPSSOID(o.i2.TokenKey())
			return append(b, errStr(err)...)
		case "TokenKeyID":
			return o.i2.TokenKeyID()
		}
	case oIss3:
		switch op {
		case "Evaluate":
			b, b2, err := o.i3.Evaluate(a.req3)
			return append(append(b, b2...), errStr(err)...)
		case "TokenKey":
			b, err := util.MarshalTokenKeyPSSOID(o.i3.TokenKey())
			return append(b, errStr(err)...)
		case "TokenKeyID":
			return o.i3.TokenKeyID()
		case "NameKey":
			return o.i3.NameKey().Marshal()
		}
	case oIss5:
		switch op {
		case "Evaluate":
			b, err := o.i5.Evaluate(a.req5)
			return append(b, errStr(err)...)
		case "Verify":
			return []byte("verify:" + errStr(o.i5.Verify(a.tok)))
		case "TokenKey":
			b, err := o.i5.TokenKey().MarshalBinary()
			return append(b, errStr(err)...)
		case "TokenKeyID":
			return o.i5.TokenKeyID()
		}
	case oBatch:
		b, err := o.bi.EvaluateBatch(a.breq)
		return append(b, errStr(err)...)
	case oECDSA:
		cv := e.cv
		switch op {
		case "Sign":
			r, s, err := ecdsa.Sign(entropy.Reader(), o.ek, a.digest)
			if err != nil {
				return []byte(errStr(err))
			}
			return append(r.Bytes(), s.Bytes()...)
		case "SignASN1":
			b, err := ecdsa.SignASN1(entropy.Reader(), o.ek, a.digest)
			return append(b, errStr(err)...)
		case "PrivateKey.Sign":
			b, err := o.ek.Sign(entropy.Reader(), a.digest, nil)
			return append(b, errStr(err)...)
		case "Verify":
			return []byte(fmt.Sprint(ecdsa.Verify(&o.ek.PublicKey, a.digest, bigFromBytes(a.tok.Nonce), bigFromBytes(a.tok.Context))))
		case "VerifyASN1":
			return []byte(fmt.Sprint(ecdsa.VerifyASN1(&o.ek.PublicKey, a.digest, a.der)))
		case "BlindPublicKeyWithContext":
			pk, err := ecdsa.BlindPublicKeyWithContext(cv, &o.ek.PublicKey, o.ebk, a.ctx)
			if err != nil {
				return []byte(errStr(err))
			}
			return elliptic.Marshal(cv, pk.X, pk.Y)
		case "UnblindPublicKeyWithContext":
			pk, err := ecdsa.UnblindPublicKeyWithContext(cv, &o.ek.PublicKey, o.ebk, a.ctx)
			if err != nil {
				return []byte(errStr(err))
			}
			return elliptic.Marshal(cv, pk.X, pk.Y)
		case "BlindKeySignWithContext":
			r, s, err := ecdsa.BlindKeySignWithContext(entropy.Reader(), o.ek, o.ebk, a.digest, a.ctx)
			if err != nil {
				return []byte(errStr(err))
			}
			return append(r.Bytes(), s.Bytes()...)
		case "Public":
			pk := o.ek.Public().(*ecdsa.PublicKey)
			return elliptic.Marshal(cv, pk.X, pk.Y)
		case "VerifyOtherKey":
			return []byte(fmt.Sprint(ecdsa.VerifyASN1(&o.ek2.PublicKey, a.digest, a.sigR)))
		}
	case oEd:
		switch op {
		case "Sign":
			return ed25519.Sign(o.edk, a.msg)
		case "Verify":
			return []byte(fmt.Sprint(ed25519.Verify(o.edpub, a.msg, a.sigR)))
		case "BlindPublicKeyWithContext":
			k, err := ed25519.BlindPublicKeyWithContext(o.edpub, o.edbl, a.ctx)
			return append(k, errStr(err)...)
		case "UnblindPublicKeyWithContext":
			k, err := ed25519.UnblindPublicKeyWithContext(o.edpub, o.edbl, a.ctx)
			return append(k, errStr(err)...)
		case "BlindKeySignWithContext":
			return ed25519.BlindKeySignWithContext(o.edk, a.msg, o.edbl, a.ctx)
		case "Public":
			return o.edk.Public().(ed25519.PublicKey)
		case "VerifyOtherKey":
			return []byte(fmt.Sprint(ed25519.Verify(o.edpub2, a.msg, a.der)))
		}
	}
	return []byte("unknown-op")
}

type c17call struct {
	task int
	op   string
	seed int64
	arg  *c17arg
	out  []byte
}

var raceLogOffset int64

func (c c17) Execute(p *core.Plan) *core.Result {
	res := core.NewResult()
	log := core.NewEventLog(false)
	kind := int(p.C("kind", 0)) % oKinds
	env := &c17env{p: p, kind: kind, cv: sigCurves[int(p.C("curve", 0))%4], keyseed: p.C("keyseed", 0), fix: int(p.C("keyseed", 0)) % 8}
	setup := &entropy.Source{}
	setup.Reset(p.Seed)
	entropy.Dispatch = func() *entropy.Source { return setup }
	defer func() { entropy.Dispatch = nil }()
	// calls per task
	var calls []*c17call
	nt := 0
	for _, st := range p.Steps {
		if st.Op == "call" {
			t := int(st.Arg(0, 0))
			if t < 0 || t >= conc.MaxTasks {
				continue
			}
			ops := objOps[kind]
			calls = append(calls, &c17call{task: t, op: ops[int(st.Arg(1, 0))%len(ops)], seed: st.Arg(2, 0)})
			if t+1 > nt {
				nt = t + 1
			}
		}
	}
	if nt == 0 {
		res.Infra = "plan without calls"
		return res
	}
	helper := env.mkObj(setup)
	for i, cl := range calls {
		a, err := env.mkArg(setup, helper, cl.op, cl.seed, fmt.Sprintf("arg%d", i))
		if err != nil {
			res.Infra = "argument setup failed: " + err.Error()
			return res
		}
		cl.arg = a
	}
	disjoint := p.C("disjoint", 0) == 1
	shared := env.mkObj(setup)
	if p.C("warm", 0) == 1 {
		// "used before": every operation once, sequentially, before the tasks start
		for i, op := range objOps[kind] {
			for _, cl := range calls {
				if cl.op == op {
					setup.Begin("warm", fmt.Sprintf("op%d", i))
					env.call(shared, op, cl.arg)
					break
				}
			}
		}
	}
	// schedule
	var order []int
	var pre []conc.Preempt
	for _, st := range p.Steps {
		switch st.Op {
		case "order":
			order = append(order, int(st.Arg(0, 0)))
		case "preempt":
			pre = append(pre, conc.Preempt{Task: int(st.Arg(0, 0)), Yield: int(st.Arg(1, 0)), Next: int(st.Arg(2, 0)), Rel: st.Arg(3, -1) >= 0, Call: int(st.Arg(3, -1))})
			res.FaultPlanned("preemption")
		}
	}
	for t := 0; t < nt; t++ { // make the order total
		found := false
		for _, o := range order {
			if o == t {
				found = true
			}
		}
		if !found {
			order = append(order, t)
		}
	}
	s := conc.New(order, pre)
	srcs := make([]*entropy.Source, nt)
	for t := 0; t < nt; t++ {
		t := t
		srcs[t] = &entropy.Source{}
		srcs[t].Reset(p.Seed)
		srcs[t].YieldHook = func() { conc.Yield(-1) }
		obj := shared
		if disjoint {
			obj = env.mkObj(setup)
		}
		var mine []*c17call
		for _, cl := range calls {
			if cl.task == t {
				mine = append(mine, cl)
			}
		}
		s.AddTask(srcs[t], func() {
			for k, cl := range mine {
				conc.Yield(-2) // operation boundary
				srcs[t].Begin(fmt.Sprintf("task%d", t), fmt.Sprintf("op%d", k))
				cl.out = env.call(obj, cl.op, cl.arg)
			}
		})
	}
	conc.InstallYieldHook()
	entropy.Dispatch = conc.CurrentSource
	s.Run()
	entropy.Dispatch = func() *entropy.Source { return setup }
	if s.Abandoned {
		// a task blocked on a lock held by a preempted task: this schedule cannot be completed
		// under one-at-a-time control; the plan is abandoned (no verdict) and the process ends
		res.Probe("schedule abandoned: the running task blocked on a lock held by a preempted task")
		res.Fingerprint = "abandoned"
		core.ExitAfterThisPlan = true
		return res
	}

	// schedule trace -> fingerprint; results
	log.Add("kind=%s warm=%d disjoint=%v tasks=%d trace=%v", objName[kind], p.C("warm", 0), disjoint, nt, s.Trace)
	fired := len(s.SiteHits)
	for range s.SiteHits {
		res.FaultFired("preemption", true)
	}
	// oracle (b): sequential equivalence
	perTask := map[int]int{}
	for _, cl := range calls {
		k := perTask[cl.task]
		perTask[cl.task]++
		fresh := env.mkObj(setup)
		setup.Begin(fmt.Sprintf("task%d", cl.task), fmt.Sprintf("op%d", k))
		want := env.call(fresh, cl.op, cl.arg)
		res.Evals++
		log.Add("call t=%d %s out=%s", cl.task, cl.op, core.H(cl.out))
		if !bytes.Equal(cl.out, want) {
			res.Violate(fmt.Sprintf("C17/sequential-equivalence/%s/%s", objName[kind], cl.op), fmt.Sprintf("%s.%s called concurrently returned %s (%d bytes); the same call alone on a fresh equal object with the same entropy returns %s (%d bytes)", objName[kind], cl.op, core.H(cl.out), len(cl.out), core.H(want), len(want)), -1)
		}
		if bytes.HasPrefix(cl.out, []byte("PANIC:")) {
			res.Violate(fmt.Sprintf("C17/panic/%s/%s", objName[kind], cl.op), string(cl.out), -1)
		}
	}
	// oracle (a): race detector reports written since the last plan of this process
	reports := readRaceReports()
	for _, rp := range reports {
		sig, harnessOnly := raceSignature(rp)
		if harnessOnly {
			res.Infra = "race report inside harness code only: " + sig
			continue
		}
		if disjoint {
			res.Infra = "race report in a null run (tasks on disjoint objects): " + sig
			continue
		}
		res.Violate("C17/race/"+objName[kind]+"/"+sig, firstLines(rp, 28), -1)
	}
	if fired > 0 && !disjoint {
		for i, site := range s.SiteHits {
			_ = i
			res.Nontrivial(fmt.Sprintf("%s/site%d/w%d", objName[kind], site, p.C("warm", 0)))
		}
	}
	res.State(fmt.Sprintf("%s/%v", objName[kind], s.Trace))
	if !conc.Instrumented {
		res.Probe("uninstrumented build: yields at operation boundaries and entropy reads only")
	}
	ys := 0
	for t := 0; t < nt; t++ {
		ys += s.Yields(t)
	}
	res.Probes["yield points passed"] += ys
	res.Sample = map[string]any{"object": objName[kind], "tasks": nt, "calls": len(calls), "preemptions_planned": len(pre), "preemptions_fired": fired, "schedule_trace(task<<24|yield)": s.Trace, "yields": ys, "warm": p.C("warm", 0) == 1}
	res.Fingerprint = log.Hash()
	return res
}

// readRaceReports returns the race reports the runtime appended to GORACE's log_path file
// since the previous call.
func readRaceReports() []string {
	prefix := os.Getenv("VERIF_RACE_LOG")
	if prefix == "" {
		return nil
	}
	path := fmt.Sprintf("%s.%d", prefix, os.Getpid())
	data, err := os.ReadFile(path)
	if err != nil || int64(len(data)) <= raceLogOffset {
		return nil
	}
	chunk := string(data[raceLogOffset:])
	raceLogOffset = int64(len(data))
	var out []string
	for _, blk := range strings.Split(chunk, "==================") {
		if strings.Contains(blk, "WARNING: DATA RACE") {
			out = append(out, strings.TrimSpace(blk))
		}
	}
	return out
}

var frameRe = regexp.MustCompile(`(?m)^  (\S+)\(\)\s*$`)
var accessRe = regexp.MustCompile(`(?m)^(Previous )?(read|write|atomic read|atomic write) at 0x[0-9a-f]+ by .*$`)

func isDep(fn string) bool {
	return strings.Contains(fn, "cloudflare/circl/") || strings.Contains(fn, "bwesterb/go-ristretto") || strings.Contains(fn, "cisco/go-hpke")
}

func isRepo(fn string) bool { return strings.Contains(fn, "cloudflare/pat-go/") }

// raceSignature normalises a report to the owner of each of the two racing accesses: the
// innermost dependency frame (circl / go-ristretto / go-hpke) if the access happens inside a
// dependency, otherwise the innermost repository frame. The repository entry points
// (Evaluate, TokenKeyID, ...) are kept in the detail, not in the signature. Order-independent.
func raceSignature(rp string) (string, bool) {
	low := strings.ReplaceAll(strings.ReplaceAll(rp, "Read at", "read at"), "Write at", "write at")
	low = strings.ReplaceAll(strings.ReplaceAll(low, "Previous read at", "Previous read at"), "Previous write at", "Previous write at")
	idx := accessRe.FindAllStringIndex(low, -1)
	var acc []string
	harnessOnly := true
	for k, loc := range idx {
		end := len(low)
		if k+1 < len(idx) {
			end = idx[k+1][0]
		}
		part := low[loc[1]:end]
		if g := strings.Index(part, "\nGoroutine "); g >= 0 {
			part = part[:g]
		}
		fs := frameRe.FindAllStringSubmatch(part, -1)
		if len(fs) == 0 {
			continue
		}
		owner := ""
		for _, f := range fs {
			if isDep(f[1]) {
				owner = f[1]
				break
			}
			if isRepo(f[1]) {
				owner = f[1]
				break
			}
		}
		for _, f := range fs {
			if isDep(f[1]) || isRepo(f[1]) {
				harnessOnly = false
			}
		}
		if owner == "" {
			owner = fs[0][1]
		}
		acc = append(acc, short(owner))
		if len(acc) == 2 {
			break
		}
	}
	sort.Strings(acc)
	return strings.Join(acc, "|"), harnessOnly
}

func short(fn string) string {
	fn = strings.TrimPrefix(fn, "github.com/cloudflare/")
	fn = strings.TrimPrefix(fn, "github.com/")
	if i := strings.Index(fn, "@"); i >= 0 {
		if j := strings.Index(fn[i:], "/"); j >= 0 {
			fn = fn[:i] + fn[i+j:]
		}
	}
	return fn
}

func firstLines(s string, n int) string {
	ls := strings.Split(s, "\n")
	if len(ls) > n {
		ls = ls[:n]
	}
	return strings.Join(ls, "\n")
}
