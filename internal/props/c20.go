package props

import (
	"fmt"
	"sort"

	"verif/internal/core"
	"verif/internal/world"
)

// C20 — origin names are recovered exactly; their length leaks only in 32-byte buckets.
type c20 struct{ base }

func init() { core.Register(c20{base{"C20", "exploration", 1000, 20000}}) }

func (c20) Describe() core.Description {
	return core.Description{
		Technique: "deterministic simulation of type-3 issuance under varied issuer configurations (registered origin sets) and an origin-name length sweep, with a wire observer; oracle = served iff registered (plan), independent HPKE open recovering exactly the requested name, one request size per 32-byte block count",
		Rule: "one evaluation = one type-3 request for one origin name evaluated by the issuer; per run one issuer with 2-5 registered names whose lengths come from a sweep window (quick: every length 0..130 across the runs plus samples up to 8000; thorough: every length 0..4096), and for each registered name the name itself and its near-misses (last byte changed, one byte longer/shorter, interior byte changed, trailing 0x01/space, empty name registered and unregistered); " +
			"non-trivial = a near-miss of a registered name, or a name whose length is within 1 of a multiple of 32; distinct = distinct (name length, relation to the registered set)",
		Real:        []string{"type3 client (padding, HPKE seal)", "RateLimitedIssuer.Evaluate (unpadding, origin lookup)", "attester VerifyRequest", "inner request codec"},
		Stub:        []string{"network + wire observer", "entropy", "arena", "recording cache"},
		Assumptions: []string{"names ending in a zero byte are outside the statement and are not generated", "leverage is low: configuration x length sweep with an independent oracle, no fault is needed to expose an error here"},
	}
}

func (c c20) Generate(seed uint64, tier string, idx int) *core.Plan {
	r := core.NewRand(core.MixI(core.Mix(seed, "C20/"+tier), idx))
	p := &core.Plan{Prop: "C20", Seed: r.U64(), Tier: tier, Cfg: map[string]int64{}}
	p.Cfg["segmode"] = int64(r.Pick([]int{0, 2}))
	p.Steps = append(p.Steps, core.Step{Op: "iss", A: []int64{3, int64(r.Intn(8))}})
	p.Steps = append(p.Steps, core.Step{Op: "client3", A: []int64{int64(r.Intn(1 << 20))}})
	// the length sweep: run idx covers lengths idx, idx+runs, ... so that all runs together
	// enumerate the range; plus sampled large lengths
	var lens []int
	if tier == "thorough" {
		lens = append(lens, idx%4097)
		lens = append(lens, (idx*31+7)%4097)
	} else {
		lens = append(lens, idx%131)
	}
	for len(lens) < r.Range(2, 5) {
		if r.Bool(25) {
			lens = append(lens, r.Pick([]int{31, 32, 33, 63, 64, 65, 95, 96, 97, 255, 256, 257, 1023, 1024, 4095, 4096, 8000}))
		} else {
			lens = append(lens, r.Intn(200))
		}
	}
	regEmpty := r.Bool(40)
	var names [][]byte
	for i, l := range lens {
		n := []byte(OriginName(int64(r.Intn(1<<30)), l))
		if l == 0 && !regEmpty {
			continue
		}
		names = append(names, n)
		p.Steps = append(p.Steps, core.Step{Op: "origin", S: []string{core.Hex(n)}, A: []int64{0, int64(l), 0, int64(r.Intn(2)), int64(100 + i)}})
	}
	if regEmpty {
		p.Steps = append(p.Steps, core.Step{Op: "origin", S: []string{""}, A: []int64{0, 0, 0, 1, 99}})
		names = append(names, []byte{})
	}
	id := 1
	add := func(name []byte) {
		if len(name) > 0 && name[len(name)-1] == 0 {
			return
		}
		a := make([]int64, sAnon+1)
		a[sID], a[sType] = int64(id), 3
		a[sChLen], a[sSeed] = 32, int64(r.Intn(1<<30))
		a[sAnon] = -2
		a[sDelay] = int64(id) * 1000
		p.Steps = append(p.Steps, core.Step{Op: "sess", A: a, S: []string{"name", core.Hex(name)}})
		id++
	}
	for _, n := range names {
		add(n)
		if len(n) > 0 {
			m := append([]byte(nil), n...)
			m[len(m)-1] ^= 0x01
			add(m)
			add(n[:len(n)-1])
			if len(n) > 2 {
				m = append([]byte(nil), n...)
				m[len(m)/2] ^= 0x02
				add(m)
			}
			// the same name in another letter case, and with a byte that is not valid UTF-8
			for i, ch := range n {
				if ch >= 'a' && ch <= 'z' {
					m = append([]byte(nil), n...)
					m[i] ^= 0x20
					add(m)
					break
				}
			}
			m = append([]byte(nil), n...)
			m[0] = 0xff
			add(m)
			m = append([]byte(nil), n...)
			m[0] = 0xfe
			add(m)
		}
		add(append(append([]byte(nil), n...), 'x'))
		add(append(append([]byte(nil), n...), []byte(":8443")...))
		add(append([]byte("login."), n...))
		add(append([]byte("."), n...))
		add(append(append([]byte(nil), n...), 0x01))
		add(append(append([]byte(nil), n...), ' '))
	}
	if !regEmpty {
		add([]byte{})
	}
	// names with zero bytes inside (the statement excludes only names that END in a zero byte)
	if len(names) > 0 && len(names[0]) > 0 {
		n := names[0]
		add(append(append(append([]byte(nil), n...), 0x00), 0x01))
		add(append(append(append([]byte(nil), n...), 0x00), n...))
	}
	if idx%3 == 1 {
		// names whose last character is multi-byte UTF-8, and the near miss cut inside it
		for _, suffix := range []string{"caf\u00e9", "\u043f\u0440\u0438\u043c\u0435\u0440.\u0440\u0444", "\u65e5\u672c", "x\U0001F600"} {
			u := append([]byte(OriginName(int64(r.Intn(1<<30)), r.Intn(6))), []byte(suffix)...)
			if r.Bool(60) {
				p.Steps = append(p.Steps, core.Step{Op: "origin", S: []string{core.Hex(u)}, A: []int64{0, int64(len(u)), 0, 1, int64(160 + len(suffix))}})
			}
			add(u)
			add(u[:len(u)-1])
		}
	}
	if idx%2 == 0 {
		z := []byte(OriginName(int64(r.Intn(1<<30)), 5))
		z = append(append(z, 0x00), []byte(OriginName(int64(r.Intn(1<<30)), r.Range(1, 40)))...)
		p.Steps = append(p.Steps, core.Step{Op: "origin", S: []string{core.Hex(z)}, A: []int64{0, int64(len(z)), 0, 1, 150}})
		add(z)
		add(z[:5])
	}
	// same-block-count companions of the first name: another name of the same padded size
	if len(names) > 0 {
		l := len(names[0])
		blocks := (l + 31) / 32
		if blocks == 0 {
			blocks = 1
		}
		for _, l2 := range []int{(blocks-1)*32 + 1, blocks * 32, blocks*32 - 1} {
			if l2 >= 0 {
				add([]byte(OriginName(int64(r.Intn(1<<30)), l2)))
			}
		}
	}
	return p
}

func (c c20) Execute(p *core.Plan) *core.Result {
	res := core.NewResult()
	w := BuildWorld(p, res, false)
	if len(w.I3) == 0 {
		res.Infra = "no issuer"
		return res
	}
	sizes := map[int]map[int]string{} // blocks -> request size -> example name length
	w.Observers = append(w.Observers, func(o *world.Outcome) {
		s := o.S
		switch o.Op {
		case "create":
			if o.Err != nil || o.Panic != nil {
				res.Violate("C20/create-failed", fmt.Sprintf("request for a %d-byte origin name could not be created: %v", len(s.Origin), o.Err), -1)
				return
			}
			blocks := (len(s.Origin) + 31) / 32
			if blocks == 0 {
				blocks = 1
			}
			if sizes[blocks] == nil {
				sizes[blocks] = map[int]string{}
			}
			sizes[blocks][len(s.ReqBytes)] = fmt.Sprint(len(s.Origin))
		case "evaluate":
			res.Evals++
			_, registered := w.I3[0].Origins[s.Origin]
			rel := "unregistered"
			if registered {
				rel = "registered"
			}
			l := len(s.Origin)
			if !registered || l%32 <= 1 || l%32 == 31 {
				res.Nontrivial(fmt.Sprintf("len%d/%s", l, rel))
			}
			res.State(fmt.Sprintf("len%d/%s", l, rel))
			if o.Panic != nil {
				res.Violate("C20/panic", fmt.Sprint(o.Panic), -1)
				return
			}
			if o.OK != registered {
				res.Violate(fmt.Sprintf("C20/served-%v-registered-%v", o.OK, registered), fmt.Sprintf("request for origin name %q (%d bytes): served=%v, registered=%v (%v)", trunc(s.Origin), l, o.OK, registered, o.Err), -1)
			}
			// independent open: the issuer-side plaintext must carry exactly the requested name
			_, _, in := indepIssuerCheck(w, 0, o.In)
			if in == nil {
				res.Violate("C20/independent-open-failed", fmt.Sprintf("the independent HPKE open of an honest request for a %d-byte name failed", l), -1)
			} else if in.Origin != s.Origin {
				res.Violate("C20/name-not-recovered", fmt.Sprintf("requested %q (%d bytes), the inner request unpads to %q (%d bytes)", trunc(s.Origin), l, trunc(in.Origin), len(in.Origin)), -1)
			} else if len(in.PaddedOrigin)%32 != 0 || len(in.PaddedOrigin) == 0 {
				res.Violate("C20/padding-not-block-multiple", fmt.Sprintf("padded origin has %d bytes for a %d-byte name", len(in.PaddedOrigin), l), -1)
			}
		case "verify-request":
			if o.Err != nil {
				res.Violate("C20/attester-refused-honest", fmt.Sprint(o.Err), -1)
			}
		}
	})
	StartAll(w)
	if !w.Net.Run() {
		res.Infra = "step budget exhausted"
	}
	var bs []int
	for b := range sizes {
		bs = append(bs, b)
	}
	sort.Ints(bs)
	sample := map[string]any{}
	for _, b := range bs {
		if len(sizes[b]) != 1 {
			res.Violate("C20/size-leak", fmt.Sprintf("names needing %d 32-byte block(s) produce requests of different sizes: %v (size -> a name length)", b, sizes[b]), -1)
		}
		for sz := range sizes[b] {
			sample[fmt.Sprintf("blocks=%d", b)] = sz
		}
	}
	res.Sample = map[string]any{"registered": len(w.I3[0].OriginOrder), "requests": len(w.Order), "request_size_by_blocks": sample}
	finish(w, res)
	return res
}

func trunc(s string) string {
	if len(s) > 40 {
		return s[:40] + "…"
	}
	return s
}
