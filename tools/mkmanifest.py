#!/usr/bin/env python3
"""Generates /verif/MANIFEST.json from the table below (kept in one place so the manifest
stays valid while checks are added)."""
import json, os
ROOT = os.path.dirname(os.path.dirname(os.path.abspath(__file__)))
ALL = ["C%02d" % i for i in range(1, 21)]
# id -> (level, technique, level text, level note, design ref)
TRUST = "Trusts the Go standard library crypto, circl (VOPRF / blind RSA engine used by both sides), go-hpke and the harness's reference code (validated against the repository's and the Rust implementation's vectors); sampling, not proof."
CHECKS = {
 "C01": ("exploration", "deterministic simulation of the whole issuance deployment over a simulated byte network; seeded benign-fault schedules (delay, reorder, duplicate, drop+retransmit, segmentation, buffer-pool reuse, decoder-object reuse, late origin registration); second engine: concurrent honest sessions on one issuer under a seeded one-at-a-time scheduler; independent token oracle",
         "Seeded search over honest deployment runs (all four token types, interleaved sessions, key and size configuration); every session must end in tokens that match an independently built encoding and verify (issuer Verify / crypto/rsa).",
         TRUST + " RSA keys from a fixture pool of 8.", "DESIGN.md §4 C01"),
 "C02": ("fault_enumeration", "deterministic simulation with a byzantine issuer on the response hop: every single-bit flip enumerated, swap, foreign key, type-5 omission/duplication/transposition; second engine: concurrent finalization of honest and hostile responses on one request state under a seeded scheduler",
         "Every bit position of honest responses of each type is flipped and delivered to a client with an outstanding request; plus swaps between sessions, foreign-key responses and batch structure faults. Finalize may succeed only with a token that verifies and is bound to the request.",
         TRUST, "DESIGN.md §4 C02"),
 "C03": ("fault_enumeration", "deterministic simulation with a garbage-sending peer, isolated worker processes, allocation meter and watchdog: every truncation, every length field x boundary set, extension, splice, noise on 29 byte-consuming targets",
         "Every truncation of honest in-flight messages and every length/count field rewritten to a boundary set up to 2^62-1 is delivered to every function that consumes peer bytes; oracle: no panic, no process death, bounded allocation and CPU.",
         TRUST + " Allocation bound 8 MiB + 1 KiB x input; hang = 20 s.", "DESIGN.md §4 C03"),
 "C04": ("exploration", "deterministic simulation with a codec monitor on the simulated wire: round trip, canonical re-encoding, decoder-object reuse histories, cross-type misrouting, accepted mutants; Rust trace replay",
         "Every message of honest runs plus 30-60 mutants each is offered to its decoder (round trip, canonical form, reuse after another value) and to the other types' decoders and the generic batch decoder (must reject).",
         TRUST, "DESIGN.md §4 C04"),
 "C05": ("exploration", "deterministic simulation of generic batch issuance with per-slot failure injection over all short compositions and issuer configurations; per-request standalone evaluation as reference model",
         "All compositions of length <= 3 (quick) / <= 4 (thorough) over {type1,type2} x {known key, unknown key id, malformed element} under four issuer configurations, sampled longer ones; each entry must agree with the per-slot model and finalize to a valid token.",
         TRUST, "DESIGN.md §4 C05"),
 "C06": ("fault_enumeration", "deterministic simulation with a byzantine client on the client->attester hop: every single-bit flip of a request, wrong blinds / client keys, swapped side information, re-signed requests, request objects altered after encoding; second engine: genuine and tampered requests verified concurrently on one attester; stdlib ECDSA + independent key-blinding reference; recording cache",
         "accept <=> (crypto/ecdsa verifies the signature over the exact contents under the request key) and (request key = reference-blind(client key, blind)); rejected requests must not touch the cache.",
         TRUST, "DESIGN.md §4 C06"),
 "C07": ("fault_enumeration", "deterministic simulation with a byzantine client on the hop into the rate-limited issuer: every single-bit flip, misrouting, 16 hostile request classes built with crypto/ecdsa + go-hpke; independent parse/HPKE-open/origin/ECDSA checker",
         "A response is returned only if the independent checker accepts; every single-bit variant and every hostile class must be refused with no output.",
         TRUST, "DESIGN.md §4 C07"),
 "C08": ("exploration", "deterministic simulation of type-3 request histories through real client, attester and issuer with duplicated/reordered messages; independent HKDF / hash-to-field / elliptic reference and cross-history invariants",
         "Every FinalizeIndex output equals the reference alias; IDs are stable per (client, index key) across blinds/nonces/challenges and distinct otherwise.",
         TRUST, "DESIGN.md §4 C08"),
 "C09": ("exploration", "deterministic simulation of attester histories (collisions, repeats, unverified client, cache-emptied restart, dup/reorder) replayed step by step against an executable bookkeeping model, plus final audit sweep",
         "Step-by-step agreement of accept/refuse and returned IDs with a 30-line model; after the history every accepted pair is re-submitted.",
         TRUST, "DESIGN.md §4 C09"),
 "C10": ("fault_enumeration", "deterministic simulation of the redemption hop with a hostile client: every single-bit flip of issued tokens, other key, other type, re-split/resized fields; provenance oracle",
         "Verify must accept exactly the (input, authenticator) pairs honestly issued under that key in the run.",
         TRUST, "DESIGN.md §4 C10"),
 "C11": ("exploration", "deterministic simulation with entropy faults (poisoned source, other stream) on fixed-blind request creation, blind-pair sessions over the wire, replay of the Rust implementation's vectors as a foreign trace",
         "Fixed-blind creation must read no entropy and be byte-identical; tokens of sessions differing only in the blind must be identical; Rust vectors reproduce byte for byte.",
         TRUST, "DESIGN.md §4 C11"),
 "C12": ("exploration", "deterministic simulation of a blinder/signer/verifier pipeline (delivery order, corruption in transit, signer entropy by plan) on four curves with an independent hash-to-field + crypto/elliptic reference and crypto/ecdsa as second verifier",
         "Laws (verify under blinded key with both verifiers, reject under unblinded key, inverse, commutativity, blind/context binding) plus strict derivation on P-256/384/521. Leverage is low outside the P-384 protocol path; the reference decides.",
         TRUST, "DESIGN.md §4 C12"),
 "C13": ("fault_enumeration", "deterministic simulation of signer -> channel -> verifier with entropy fault injection at every read position x fault kind on six entry points x four curves; channel corruption/malleation with crypto/ecdsa as reference model",
         "Entropy failure => error and no output; absorbable short reads => result identical to the fault-free one; verdicts equal to crypto/ecdsa on every corrupted or malleated signature produced.",
         TRUST, "DESIGN.md §4 C13"),
 "C14": ("fault_enumeration", "deterministic simulation of keygen/signer -> channel -> verifier with crypto/ed25519 beside every step: same entropy fault plan for both key generators, every bit flip of signature and key, S+L / small-order / non-canonical encodings",
         "Keys, signatures, errors and entropy consumption byte-equal to crypto/ed25519; verdicts equal on every variant.",
         TRUST, "DESIGN.md §4 C14"),
 "C15": ("exploration", "deterministic simulation of a blinder/signer/verifier pipeline with a math/big twisted-Edwards reference, poisoned entropy (determinism) and crypto/ed25519.Verify as unmodified verifier",
         "Blinded key equals the reference; signature deterministic, accepted by crypto/ed25519 under the blinded key only; inverse, commutativity, blind/context binding. Leverage is low (no protocol path).",
         TRUST, "DESIGN.md §4 C15"),
 "C16": ("exploration", "deterministic simulation with the arena in strict mode (guards, spare capacity, poison from the plan), second execution under another layout with the same entropy, snapshots of earlier results re-checked after every later call",
         "Arguments, spare capacity and guards unchanged after every call; results independent of spare contents; requests/encodings/tokens handed out earlier intact across duplicate finalize/evaluate/decoder reuse.",
         TRUST, "DESIGN.md §4 C16"),
 "C17": ("exploration", "deterministic simulation of caller goroutines under a seeded one-at-a-time scheduler (raw-pipe hand-off invisible to the race detector, go/ast-inserted yields in scratch copies of /repo and circl, PCT-style preemption lists) built with -race; race reports + sequential-equivalence oracle",
         "Seeded search over schedules of 2-6 tasks calling one shared issuer/key object, cold and used-before; every race report whose owner is repository or dependency code is a violation; every call's bytes must equal a sequential re-execution under the same entropy. Detection of a given race under a given schedule is ~95% (bounded detector history); absence is sampling.",
         TRUST + " Trusts the Go race detector; yields inside dependencies only in circl oprf/dleq/group/blindrsa/expander.", "DESIGN.md §4 C17"),
 "C18": ("exploration", "deterministic simulation of the key directory with rotation while requests are in flight; wire observer recomputes ids from published bytes; own DER assembler for the RSASSA-PSS SPKI; synthetic keys of all sizes",
         "Published PSS SPKI byte-identical to an independently assembled DER (and to the Rust implementation's pkS); both forms decode back; key-id byte / name-key id on every request = SHA-256 of published bytes. Leverage is low.",
         TRUST, "DESIGN.md §4 C18"),
 "C19": ("exploration", "deterministic simulation of a framed byte stream delivered in plan-chosen segments (down to one byte), corrupted length prefixes and truncation, with an own RFC 9000 decoder as reference model on every prefix; all net-engine runs also frame with quicwire",
         "Consumers agree with the reference on every prefix (n<0 iff incomplete), shortest-form append/size, prefix untouched, no dependence on bytes beyond the slice. Sampling with boundary bias, not enumeration below 2^30.",
         TRUST, "DESIGN.md §4 C19"),
 "C20": ("exploration", "deterministic simulation of type-3 issuance under varied registered-origin configurations with a name-length sweep and near-miss names; wire observer groups request sizes by 32-byte block count; independent HPKE open",
         "served <=> registered; independent open recovers exactly the name; one request size per block count. Leverage is low (configuration x length sweep).",
         TRUST, "DESIGN.md §4 C20"),
}
PENDING_REASON = "check not built yet in this session (work in progress; see DESIGN.md §4 for the planned simulation)"
def main():
    checks = []
    for pid in ALL:
        if pid not in CHECKS: continue
        level, tech, text, note, ref = CHECKS[pid]
        checks.append({
            "property_id": pid,
            "quick_cmd": "./check %s quick" % pid,
            "thorough_cmd": "./check %s thorough" % pid,
            "evidence_file": "/verif/evidence/%s.json" % pid,
            "replay_cmd_template": "./check --replay {path}",
            "engine": "conc" if pid == "C17" else ("sig" if pid in ("C12","C13","C14","C15") else "net"),
            "level_claimed": {"category": level, "text": text, "design_ref": ref},
            "level_note": note,
            "technique": tech,
        })
    m = {
        "version": 1,
        "setup_cmd": "./check --build",
        "hooks": {"guard": "verif", "enable": "go build -tags verif (all engines are built with the tag; no hook source exists in /repo so far)",
                  "baseline_off_cmd": "/verif/baseline.sh", "source_commits": [], "add_only": True},
        "engines": [
            {"name": "conc-parts", "path": "/verif/internal/props", "serves_properties": ["C01", "C02", "C06"], "kind_free_text": "scenarios C01c, C02c, C06c on the conc engine, run by ./check C01|C02|C06 after the net engine; violations reported under the property"},
            {"name": "net", "path": "/verif/internal/world", "serves_properties": [p for p in CHECKS if p not in ("C12","C13","C14","C15","C17")], "kind_free_text": "deployment simulator: clients, attester, issuers, batch issuer, origin, directory over a quicwire-framed simulated byte network, simulated entropy, arena"},
            {"name": "sig", "path": "/verif/internal/props", "serves_properties": [p for p in CHECKS if p in ("C12","C13","C14","C15")], "kind_free_text": "signer/blinder/verifier pipeline with entropy faults and stdlib reference model"},
            {"name": "conc", "path": "/verif/internal/conc", "serves_properties": [p for p in CHECKS if p == "C17"], "kind_free_text": "seeded one-at-a-time task scheduler under the race detector on a yield-instrumented scratch copy"},
        ],
        "checks": checks,
        "not_applicable": [{"property_id": p, "reason": PENDING_REASON} for p in ALL if p not in CHECKS],
        "notes": "All checks: ./check <ID> <tier>; VERIF_SEED selects the seed; exit 0 held, 1 violation (VIOLATION line + replay file), 2 infrastructure trouble. known_findings.json lists fixed/known findings.",
    }
    json.dump(m, open(os.path.join(ROOT, "MANIFEST.json"), "w"), indent=1)
main()
