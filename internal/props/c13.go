package props

import (
	stdecdsa "crypto/ecdsa"
	"crypto/elliptic"
	"errors"
	"fmt"
	"io"
	"math/big"

	"github.com/cloudflare/pat-go/ecdsa"

	"verif/internal/arena"
	"verif/internal/core"
	"verif/internal/entropy"
)

// C13 — the ECDSA fork accepts and produces exactly standard ECDSA.
type c13 struct{ base }

func init() { core.Register(c13{base{"C13", "fault_enumeration", 400, 9000}}) }

func (c13) Describe() core.Description {
	return core.Description{
		Technique: "deterministic simulation of a signer -> channel -> verifier pipeline with the simulated entropy source: every entropy read position x every fault kind (error with three error values, partial read with error, short reads in 1-byte / half / all-but-one pieces, stalls) injected into key generation and all signing entry points on four curves; channel corruption and malleation of raw and DER signatures; crypto/ecdsa runs beside every step as reference model",
		Rule: "one evaluation = one operation under one entropy fault judged (fail closed / identical to the fault-free result), or one signature variant whose verdict is compared with crypto/ecdsa; per run one curve, one key, and either the full entropy-fault enumeration for the six entry points or 40-120 verdict comparisons (bit flips, byte sets, truncation, extension of DER and fixed-width r||s; r,s in {0, N, N+r, N-s, 2^k, all-ones, negative}; non-minimal / trailing / wrong-tag / indefinite-length DER; digest lengths 0..128; fork-signed and stdlib-signed); " +
			"non-trivial = an entropy fault that fired inside the operation, or a corrupted / malleated signature; distinct = distinct (curve, entry point, fault kind, position) and (curve, variant class, verdict)",
		Real:        []string{"ecdsa.GenerateKey, Sign, SignASN1, PrivateKey.Sign, BlindKeySign, BlindKeySignWithContext, Verify, VerifyASN1"},
		Stub:        []string{"entropy source with fault injection", "channel corrupter", "crypto/ecdsa as reference model", "arena"},
		Assumptions: []string{"verdict agreement is agreement on the inputs the corrupter produced, not a proof that the two verifiers accept the same set", "public keys are valid curve points (the statement's precondition)"},
	}
}

var sigCurves = []elliptic.Curve{elliptic.P224(), elliptic.P256(), elliptic.P384(), elliptic.P521()}

func (c c13) Generate(seed uint64, tier string, idx int) *core.Plan {
	r := core.NewRand(core.MixI(core.Mix(seed, "C13/"+tier), idx))
	p := &core.Plan{Prop: "C13", Seed: r.U64(), Tier: tier, Cfg: map[string]int64{}}
	p.Cfg["curve"] = int64(idx % 4)
	p.Cfg["keyseed"] = int64(r.Intn(1 << 30))
	p.Cfg["spare"] = int64(r.Pick([]int{0, 7, 64}))
	if idx%3 == 0 {
		// entropy-fault enumeration: entry point x read position x fault kind
		for op := 0; op < 6; op++ {
			for k := 0; k < 2; k++ {
				for _, f := range [][2]int64{{1, 0}, {1, 1}, {1, 2}, {2, 0}, {2, 1}, {2, 5}, {2, 31}, {3, 1}, {3, -1}, {3, -2}, {3, 7}, {4, 1}, {4, 3}, {5, 0x00}, {5, 0xff}, {5, 0x01}} {
					p.Steps = append(p.Steps, core.Step{Op: "ent", A: []int64{int64(op), int64(k), f[0], f[1], int64(r.Intn(129)), int64(r.Intn(1 << 30))}})
				}
			}
		}
		return p
	}
	n := r.Range(40, 120)
	for i := 0; i < n; i++ {
		signer := int64(r.Intn(7))
		dl := int64(r.Pick([]int{0, 1, 20, 28, 32, 47, 48, 49, 64, 66, 67, 100, 128}))
		p.Steps = append(p.Steps, core.Step{Op: "agree", A: []int64{signer, dl, int64(r.Intn(1 << 30)), int64(r.Intn(18)), int64(r.Intn(1 << 20)), int64(r.Intn(256))}})
	}
	return p
}

var entErrs = []error{io.EOF, io.ErrUnexpectedEOF, errors.New("entropy device failed")}

func mkFault(kind, param int64, k int) entropy.Fault {
	switch kind {
	case 1:
		return entropy.Fault{Kind: entropy.ErrAt, K: k, Err: entErrs[int(param)%3]}
	case 2:
		return entropy.Fault{Kind: entropy.PartialAt, K: k, Param: int(param), Err: entErrs[int(param)%3]}
	case 3:
		return entropy.Fault{Kind: entropy.ShortAt, K: k, Param: int(param)}
	case 4:
		return entropy.Fault{Kind: entropy.StallAt, K: k, Param: int(param)}
	case 5:
		// read k delivers degenerate bytes (all 0x00 / 0xFF / 0x01); any further read fails
		return entropy.Fault{Kind: entropy.ValueThenErr, K: k, Param: int(param), Err: entErrs[2]}
	}
	return entropy.Fault{}
}

var faultName = map[int64]string{1: "E-ERR", 2: "E-PARTIAL", 3: "E-SHORT", 4: "E-STALL", 5: "E-VALUE+ERR"}
var entryPoint = []string{"GenerateKey", "Sign", "SignASN1", "PrivateKey.Sign", "BlindKeySign", "BlindKeySignWithContext"}

func forkKey(cv elliptic.Curve, seed int64) (*ecdsa.PrivateKey, *stdecdsa.PrivateKey) {
	r := core.NewRand(uint64(seed) ^ 0xEC)
	n := cv.Params().N
	d := new(big.Int).SetBytes(r.Bytes((n.BitLen() + 7) / 8))
	d.Mod(d, new(big.Int).Sub(n, big.NewInt(1)))
	d.Add(d, big.NewInt(1))
	fk, _ := ecdsa.CreateKey(cv, d.Bytes())
	return fk, &stdecdsa.PrivateKey{PublicKey: stdecdsa.PublicKey{Curve: cv, X: fk.X, Y: fk.Y}, D: d}
}

func (c c13) Execute(p *core.Plan) *core.Result {
	res := core.NewResult()
	log := core.NewEventLog(false)
	ent := entropy.Global
	ent.Reset(p.Seed)
	cv := sigCurves[int(p.C("curve", 0))%4]
	cname := cv.Params().Name
	fk, sk := forkKey(cv, p.C("keyseed", 1))
	bk, _ := forkKey(cv, p.C("keyseed", 1)+99)
	spare := int(p.C("spare", 0))
	for si, st := range p.Steps {
		switch st.Op {
		case "ent":
			op, k := int(st.Arg(0, 0))%6, int(st.Arg(1, 0))
			digest := core.NewRand(uint64(st.Arg(5, 0))).Bytes(int(st.Arg(4, 32)))
			ctx := core.NewRand(uint64(st.Arg(5, 0)) + 1).Bytes(int(st.Arg(4, 32)) % 40)
			run := func() (out string, key *ecdsa.PrivateKey, r, s *big.Int, sig []byte, err error) {
				rd := entropy.Reader()
				switch op {
				case 0:
					key, err = ecdsa.GenerateKey(cv, rd)
					if key != nil {
						out = key.D.String()
					}
				case 1:
					r, s, err = ecdsa.Sign(rd, fk, digest)
				case 2:
					sig, err = ecdsa.SignASN1(rd, fk, digest)
				case 3:
					sig, err = fk.Sign(rd, digest, nil)
				case 4:
					r, s, err = ecdsa.BlindKeySign(rd, fk, bk, digest)
				case 5:
					r, s, err = ecdsa.BlindKeySignWithContext(rd, fk, bk, digest, ctx)
				}
				if r != nil && s != nil {
					out = r.String() + "/" + s.String()
				}
				if sig != nil {
					out = core.Hex(sig)
				}
				return
			}
			label := fmt.Sprintf("ent/%d", si)
			ent.Begin("signer", label)
			base, _, _, _, _, berr := run()
			reads := ent.Reads
			if berr != nil {
				res.Violate("C13/fault-free-failed/"+entryPoint[op], fmt.Sprintf("%s on %s failed without any fault: %v", entryPoint[op], cname, berr), si)
				continue
			}
			ent.Begin("signer", label) // same (party, op): same entropy as the fault-free execution
			f := mkFault(st.Arg(2, 1), st.Arg(3, 0), k)
			ent.SetFault(f)
			fname := faultName[st.Arg(2, 1)]
			res.FaultPlanned(fname)
			out, key, r, s, sig, err := run()
			fired := ent.Fired > 0
			res.Evals++
			log.Add("ent op=%d k=%d fault=%s/%d fired=%v err=%v out=%s", op, k, fname, st.Arg(3, 0), fired, err != nil, core.H([]byte(out)))
			if !fired {
				// position beyond the operation's reads: planned, not fired; the result must be the fault-free one
				if err != nil || out != base {
					res.Violate("C13/unfired-fault-changed-result/"+entryPoint[op], fmt.Sprintf("%s on %s: no fault fired (the operation makes %d reads) but the result differs", entryPoint[op], cname, reads), si)
				}
				continue
			}
			res.FaultFired(fname, true)
			res.Nontrivial(fmt.Sprintf("%s/%s/%s/%d@%d", cname, entryPoint[op], fname, st.Arg(3, 0), k))
			if f.Kind == entropy.ValueThenErr {
				// degenerate entropy followed by a failing source: either an error and no output, or —
				// if the operation needed no further read — a result that is valid on its own
				if err != nil {
					if key != nil || r != nil || s != nil || sig != nil {
						res.Violate(fmt.Sprintf("C13/output-with-error/%s/%s", entryPoint[op], fname), fmt.Sprintf("%s on %s: returned a key or signature together with the error %v", entryPoint[op], cname, err), si)
					}
					continue
				}
				switch {
				case key != nil:
					N := cv.Params().N
					gx, gy := cv.ScalarBaseMult(new(big.Int).Mod(key.D, N).Bytes())
					if key.D.Sign() <= 0 || key.D.Cmp(N) >= 0 || key.X == nil || gx.Cmp(key.X) != 0 || gy.Cmp(key.Y) != 0 {
						res.Violate("C13/invalid-key-without-error/"+fname, fmt.Sprintf("GenerateKey on %s with %#02x-valued entropy followed by a failing source returned no error and a private scalar outside [1, N-1] or a public key that is not D*G", cname, byte(f.Param)), si)
					}
				case r != nil && s != nil:
					pubS := &sk.PublicKey
					if op >= 4 {
						ctxUse := ctx
						if op == 4 {
							ctxUse = nil
						}
						if bp, berr := ecdsa.BlindPublicKeyWithContext(cv, &fk.PublicKey, bk, ctxUse); berr == nil {
							pubS = &stdecdsa.PublicKey{Curve: cv, X: bp.X, Y: bp.Y}
						}
					}
					if !stdecdsa.Verify(pubS, digest, r, s) {
						res.Violate(fmt.Sprintf("C13/invalid-signature-without-error/%s/%s", entryPoint[op], fname), fmt.Sprintf("%s on %s under degenerate entropy returned no error and a signature crypto/ecdsa rejects", entryPoint[op], cname), si)
					}
				case sig != nil:
					if !stdecdsa.VerifyASN1(&sk.PublicKey, digest, sig) {
						res.Violate(fmt.Sprintf("C13/invalid-signature-without-error/%s/%s", entryPoint[op], fname), fmt.Sprintf("%s on %s under degenerate entropy returned no error and a signature crypto/ecdsa rejects", entryPoint[op], cname), si)
					}
				}
				continue
			}
			absorbable := f.Kind == entropy.ShortAt || f.Kind == entropy.StallAt
			if absorbable {
				if err != nil {
					res.Violate(fmt.Sprintf("C13/absorbable-fault-failed/%s/%s", entryPoint[op], fname), fmt.Sprintf("%s on %s: short reads without error must be absorbed by the reader loop, got %v", entryPoint[op], cname, err), si)
				} else if out != base {
					res.Violate(fmt.Sprintf("C13/result-from-partial-buffer/%s/%s", entryPoint[op], fname), fmt.Sprintf("%s on %s: with the entropy delivered in pieces the result differs from the uninterrupted one — a key or nonce was derived from a partially filled buffer", entryPoint[op], cname), si)
				}
				continue
			}
			if err == nil {
				res.Violate(fmt.Sprintf("C13/not-fail-closed/%s/%s", entryPoint[op], fname), fmt.Sprintf("%s on %s: the entropy source failed at read %d (%v) but the operation succeeded", entryPoint[op], cname, k, f.Err), si)
			}
			if key != nil || r != nil || s != nil || sig != nil {
				res.Violate(fmt.Sprintf("C13/output-with-error/%s/%s", entryPoint[op], fname), fmt.Sprintf("%s on %s: returned a key or signature together with the error %v", entryPoint[op], cname, err), si)
			}
		case "agree":
			c.agree(res, log, ent, cv, fk, sk, bk, st, si, spare)
		}
	}
	res.Fingerprint = log.Hash()
	res.Sample = map[string]any{"curve": cname, "steps": len(p.Steps), "first": p.Steps[0]}
	return res
}

// derSig encodes SEQUENCE{INTEGER r, INTEGER s} (own assembler, handles negative values).
func derBig(v *big.Int) []byte {
	if v.Sign() >= 0 {
		return derInt(v)
	}
	// two's complement
	n := (v.BitLen() + 8) / 8
	m := new(big.Int).Add(v, new(big.Int).Lsh(big.NewInt(1), uint(8*n)))
	b := m.FillBytes(make([]byte, n))
	for len(b) > 1 && b[0] == 0xff && b[1]&0x80 != 0 {
		b = b[1:]
	}
	return tlv(0x02, b)
}

func derSig(r, s *big.Int) []byte { return tlv(0x30, cat(derBig(r), derBig(s))) }

func (c c13) agree(res *core.Result, log *core.EventLog, ent *entropy.Source, cv elliptic.Curve, fk *ecdsa.PrivateKey, sk *stdecdsa.PrivateKey, bk *ecdsa.PrivateKey, st core.Step, si, spare int) {
	cname := cv.Params().Name
	N := cv.Params().N
	signer := int(st.Arg(0, 0)) % 7
	rnd := core.NewRand(uint64(st.Arg(2, 0)))
	digest := rnd.Bytes(int(st.Arg(1, 32)))
	ent.Begin("signer", fmt.Sprintf("agree/%d", si))
	rd := entropy.Reader()
	var r, s *big.Int
	var der []byte
	var err error
	pubF, pubS := &fk.PublicKey, &sk.PublicKey
	switch signer {
	case 0:
		r, s, err = ecdsa.Sign(rd, fk, digest)
	case 1:
		der, err = ecdsa.SignASN1(rd, fk, digest)
	case 2:
		der, err = fk.Sign(rd, digest, nil)
	case 3, 4:
		ctx := rnd.Bytes(int(st.Arg(5, 0)) % 40)
		if signer == 3 {
			ctx = nil
			r, s, err = ecdsa.BlindKeySign(rd, fk, bk, digest)
		} else {
			r, s, err = ecdsa.BlindKeySignWithContext(rd, fk, bk, digest, ctx)
		}
		bp, berr := ecdsa.BlindPublicKeyWithContext(cv, &fk.PublicKey, bk, ctx)
		if berr != nil {
			res.Violate("C13/blind-public-key-error", berr.Error(), si)
			return
		}
		pubF, pubS = bp, &stdecdsa.PublicKey{Curve: cv, X: bp.X, Y: bp.Y}
	case 5:
		r, s, err = stdecdsa.Sign(rd, sk, digest)
	case 6:
		der, err = stdecdsa.SignASN1(rd, sk, digest)
	}
	if err != nil {
		res.Violate("C13/honest-sign-failed", fmt.Sprintf("signer %d on %s: %v", signer, cname, err), si)
		return
	}
	if der == nil {
		der = derSig(r, s)
	} else {
		// recover r, s with the reference parser
		r, s = new(big.Int), new(big.Int)
		if !parseDER(der, r, s) {
			res.Violate("C13/own-der-unparseable", fmt.Sprintf("signer %d on %s produced DER the reference parser refuses", signer, cname), si)
			return
		}
	}
	// honest signature: both verifiers must accept, in both encodings
	ar := arena.New(arena.Layout{Spare: spare, Poison: 0xA5, Guard: 0x5C})
	check := func(label string, rr, ss *big.Int, enc []byte) {
		res.Evals++
		dg := ar.Put("digest", digest)
		var vf, vs bool
		if pv := safely(func() {
			if enc != nil {
				vf = ecdsa.VerifyASN1(pubF, dg, ar.Put("sig", enc))
			} else {
				vf = ecdsa.Verify(pubF, dg, rr, ss)
			}
		}); pv != nil {
			res.Violate("C13/fork-panicked/"+label, fmt.Sprintf("%s, variant %s: this package's verifier panicked (%v) where crypto/ecdsa returns a verdict", cname, label, pv), si)
			return
		}
		if enc != nil {
			vs = stdecdsa.VerifyASN1(pubS, digest, enc)
		} else {
			vs = stdecdsa.Verify(pubS, digest, rr, ss)
		}
		log.Add("agree %s fork=%v std=%v", label, vf, vs)
		res.State(fmt.Sprintf("%s/%s/%v", cname, label, vs))
		if label != "honest" {
			res.Nontrivial(fmt.Sprintf("%s/%s/%v", cname, label, vs))
		}
		if vf != vs {
			res.Violate("C13/verdict-differs/"+label, fmt.Sprintf("%s, digest %d bytes, variant %s: fork says %v, crypto/ecdsa says %v", cname, len(digest), label, vf, vs), si)
		}
		if label == "honest" && !vs {
			res.Violate("C13/honest-signature-rejected", fmt.Sprintf("%s: a signature made by signer %d does not verify under crypto/ecdsa", cname, signer), si)
		}
		if d := ar.Audit(); len(d) > 0 {
			res.Probe("argument written during verification (C16's business)")
		}
		ar.Release()
	}
	check("honest", r, s, nil)
	check("honest", nil, nil, der)
	// one channel variant per step, chosen by the plan
	v := int(st.Arg(3, 0)) % 18
	x := st.Arg(4, 0)
	one := big.NewInt(1)
	switch v {
	case 0:
		check("r=0", big.NewInt(0), s, nil)
		check("s=0", r, big.NewInt(0), nil)
	case 1:
		check("r=N", N, s, nil)
		check("s=N", r, N, nil)
	case 2:
		check("r+N", new(big.Int).Add(r, N), s, nil)
		check("s+N", r, new(big.Int).Add(s, N), nil)
	case 3:
		check("N-s", r, new(big.Int).Sub(N, s), nil) // valid: must be accepted by both
	case 4:
		check("negative", new(big.Int).Neg(r), s, nil)
		check("negative", r, new(big.Int).Neg(s), nil)
		check("negative-der", nil, nil, derSig(new(big.Int).Neg(r), s))
	case 5:
		k := uint(x % int64(N.BitLen()+8))
		check("2^k", new(big.Int).Lsh(one, k), s, nil)
		check("all-ones", new(big.Int).Sub(new(big.Int).Lsh(one, uint(N.BitLen())), one), s, nil)
	case 6:
		check("swapped", s, r, nil)
	case 7:
		b := append([]byte(nil), der...)
		bit := int(x) % (8 * len(b))
		b[bit/8] ^= 1 << uint(bit%8)
		check("der-flip1", nil, nil, b)
	case 8:
		check("der-trunc", nil, nil, der[:int(x)%len(der)])
		check("der-extend", nil, nil, append(append([]byte(nil), der...), byte(st.Arg(5, 0))))
		check("der-empty", nil, nil, nil2())
	case 9:
		// non-minimal INTEGER: leading zero byte added to r
		rb := r.Bytes()
		if len(rb) > 0 && rb[0]&0x80 == 0 {
			check("der-nonminimal-int", nil, nil, tlv(0x30, cat(tlv(0x02, append([]byte{0}, rb...)), derBig(s))))
		} else {
			check("der-nonminimal-int", nil, nil, tlv(0x30, cat(tlv(0x02, append([]byte{0, 0}, rb...)), derBig(s))))
		}
	case 10:
		// long-form length where short form suffices; indefinite length
		body := cat(derBig(r), derBig(s))
		if len(body) < 128 {
			check("der-long-length", nil, nil, cat([]byte{0x30, 0x81, byte(len(body))}, body))
		}
		check("der-indefinite", nil, nil, cat([]byte{0x30, 0x80}, body, []byte{0, 0}))
	case 11:
		body := cat(derBig(r), derBig(s))
		check("der-wrong-tag", nil, nil, tlv(0x31, body))
		check("der-wrong-int-tag", nil, nil, tlv(0x30, cat(tlv(0x03, r.Bytes()), derBig(s))))
		check("der-three-ints", nil, nil, tlv(0x30, cat(body, derBig(one))))
		check("der-one-int", nil, nil, tlv(0x30, derBig(r)))
	case 12:
		// fixed-width r||s corrupted in transit
		w := (N.BitLen() + 7) / 8
		raw := append(r.FillBytes(make([]byte, w)), s.FillBytes(make([]byte, w))...)
		bit := int(x) % (8 * len(raw))
		raw[bit/8] ^= 1 << uint(bit%8)
		check("raw-flip1", new(big.Int).SetBytes(raw[:w]), new(big.Int).SetBytes(raw[w:]), nil)
	case 13:
		// digest changed in transit
		if len(digest) > 0 {
			d2 := append([]byte(nil), digest...)
			d2[int(x)%len(d2)] ^= 0x01
			old := digest
			digest = d2
			check("digest-flip", r, s, nil)
			digest = old
		}
		old := digest
		digest = append(append([]byte(nil), digest...), 0x55)
		check("digest-extended", r, s, nil)
		digest = old
	case 14:
		// verify under another key
		of, os := forkKey(cv, x+12345)
		pf, ps := pubF, pubS
		pubF, pubS = &of.PublicKey, &os.PublicKey
		check("other-key", r, s, nil)
		pubF, pubS = pf, ps
	case 16:
		// arbitrary byte strings offered as ASN.1 signatures
		g := core.NewRand(uint64(x) ^ 0xDE5)
		for i := 0; i < 6; i++ {
			check("der-garbage", nil, nil, g.Bytes(g.Pick([]int{0, 1, 2, 3, 8, 40, 70, 104, 140})))
		}
	case 17:
		// random but well-nested TLV structures: SEQUENCE of 0-3 elements with random tags / lengths
		g := core.NewRand(uint64(x) ^ 0x71F)
		for i := 0; i < 6; i++ {
			var body []byte
			for k := g.Intn(4); k > 0; k-- {
				tag := byte(g.Pick([]int{0x02, 0x02, 0x02, 0x03, 0x04, 0x05, 0x30, 0x82}))
				val := g.Bytes(g.Pick([]int{0, 1, 2, 20, 32, 33, 48, 49, 66, 67}))
				if g.Bool(50) && len(val) > 0 {
					val[0] &= 0x7f
				}
				body = append(body, tlv(tag, val)...)
			}
			check("der-random-tlv", nil, nil, tlv(byte(g.Pick([]int{0x30, 0x30, 0x30, 0x31, 0x10})), body))
		}
	case 15:
		// a valid signature whose nonce point R has x in [N, p): r = x mod N is tiny. Built by
		// choosing R and s and solving for the public key Q = r^-1 (s R - z G).
		if q, r2, s2, ok := bigXSignature(cv, digest, x, 0); ok {
			pf, ps := pubF, pubS
			pubF, pubS = &ecdsa.PublicKey{Curve: cv, X: q.X, Y: q.Y}, q
			check("R.x>=N", r2, s2, nil)
			pubF, pubS = pf, ps
		}
		// the same construction with a one-octet s as well: the shortest possible DER signature
		if q, r2, s2, ok := bigXSignature(cv, digest, x, 1+x%126); ok && r2.BitLen() <= 7 {
			pf, ps := pubF, pubS
			pubF, pubS = &ecdsa.PublicKey{Curve: cv, X: q.X, Y: q.Y}, q
			check("tiny-r-s", r2, s2, nil)
			check("tiny-r-s-der", nil, nil, derSig(r2, s2))
			pubF, pubS = pf, ps
		}
		check("r=1", one, s, nil)
		check("s=N-1", r, new(big.Int).Sub(N, one), nil)
		check("r=N-1", new(big.Int).Sub(N, one), s, nil)
	}
}

func nil2() []byte { return []byte{} }

// parseDER is the reference parser for SEQUENCE{INTEGER, INTEGER} (minimal, definite).
func parseDER(b []byte, r, s *big.Int) bool {
	if len(b) < 2 || b[0] != 0x30 {
		return false
	}
	l, n := derLen(b[1:])
	if n < 0 || 1+n+l != len(b) {
		return false
	}
	body := b[1+n:]
	for _, v := range []*big.Int{r, s} {
		if len(body) < 2 || body[0] != 0x02 {
			return false
		}
		il, in := derLen(body[1:])
		if in < 0 || 1+in+il > len(body) || il == 0 {
			return false
		}
		v.SetBytes(body[1+in : 1+in+il])
		body = body[1+in+il:]
	}
	return len(body) == 0
}

func derLen(b []byte) (int, int) {
	if len(b) == 0 {
		return 0, -1
	}
	if b[0] < 0x80 {
		return int(b[0]), 1
	}
	k := int(b[0] & 0x7f)
	if k == 0 || k > 2 || len(b) < 1+k {
		return 0, -1
	}
	l := 0
	for i := 0; i < k; i++ {
		l = l<<8 | int(b[1+i])
	}
	return l, 1 + k
}

// bigXSignature constructs (Q, r, s) such that (r, s) is a valid ECDSA signature of digest
// under Q and the nonce point's x-coordinate lies in [N, p) — the case in which the final
// reduction of x modulo N matters. Uses crypto/elliptic and math/big only.
func bigXSignature(cv elliptic.Curve, digest []byte, seed int64, smallS int64) (*stdecdsa.PublicKey, *big.Int, *big.Int, bool) {
	pr := cv.Params()
	N, P := pr.N, pr.P
	if N.Cmp(P) >= 0 {
		return nil, nil, nil, false
	}
	three := big.NewInt(3)
	for j := int64(1 + seed%50); j < 4000; j++ {
		x := new(big.Int).Add(N, big.NewInt(j))
		if x.Cmp(P) >= 0 {
			return nil, nil, nil, false
		}
		// y^2 = x^3 - 3x + b
		y2 := new(big.Int).Exp(x, three, P)
		y2.Sub(y2, new(big.Int).Mul(three, x))
		y2.Add(y2, pr.B)
		y2.Mod(y2, P)
		y := new(big.Int).ModSqrt(y2, P)
		if y == nil || !cv.IsOnCurve(x, y) {
			continue
		}
		r := big.NewInt(j)
		s := new(big.Int).SetBytes([]byte{byte(seed), 0x5a, byte(seed >> 8), 0x11, 0x77})
		s.Add(s, big.NewInt(2))
		if smallS > 0 {
			s = big.NewInt(smallS)
		}
		// z: the digest as the verifier reads it
		z := new(big.Int).SetBytes(digest)
		if ob := N.BitLen(); len(digest)*8 > ob {
			z.SetBytes(digest[:(ob+7)/8])
			if ex := ((ob+7)/8)*8 - ob; ex > 0 {
				z.Rsh(z, uint(ex))
			}
		}
		// Q = r^-1 (s R - z G)
		sx, sy := cv.ScalarMult(x, y, s.Bytes())
		zm := new(big.Int).Mod(z, N)
		var tx, ty *big.Int
		if zm.Sign() == 0 {
			tx, ty = sx, sy
		} else {
			gx, gy := cv.ScalarBaseMult(zm.Bytes())
			gy = new(big.Int).Sub(P, gy) // -zG
			tx, ty = cv.Add(sx, sy, gx, gy)
		}
		rinv := new(big.Int).ModInverse(r, N)
		qx, qy := cv.ScalarMult(tx, ty, rinv.Bytes())
		if qx.Sign() == 0 && qy.Sign() == 0 {
			continue
		}
		return &stdecdsa.PublicKey{Curve: cv, X: qx, Y: qy}, r, s, true
	}
	return nil, nil, nil, false
}
