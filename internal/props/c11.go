package props

import (
	"bytes"
	"crypto/elliptic"
	"crypto/rsa"
	"crypto/sha256"
	"crypto/x509"
	"encoding/json"
	"encoding/pem"
	"fmt"
	"math/big"
	"os"

	"github.com/cloudflare/circl/oprf"
	"github.com/cloudflare/pat-go/tokens"
	"github.com/cloudflare/pat-go/tokens/batched"
	"github.com/cloudflare/pat-go/tokens/type1"
	"github.com/cloudflare/pat-go/tokens/type2"
	"github.com/cloudflare/pat-go/tokens/type5"

	"verif/internal/core"
	"verif/internal/entropy"
	"verif/internal/world"
)

// C11 — issuance with fixed blinds is reproducible and the token ignores the blind.
type c11 struct{ base }

func init() { core.Register(c11{base{"C11", "exploration", 2000, 50000}}) }

func (c11) Describe() core.Description {
	return core.Description{
		Technique: "deterministic simulation with entropy faults: fixed-blind request creation is executed with a poisoned entropy source and under a different entropy stream (must read nothing and give identical bytes); pairs of sessions that differ only in the blind run to completion over the simulated wire and must give byte-identical tokens; the Rust implementation's vectors are replayed as a recorded foreign trace",
		Rule: "one evaluation = one byte comparison (request under poison/other stream, token pair under two blinds, vector field); per run 2-6 pairs of sessions over types 1, 2, 5 with the same key, challenge, nonce (and salt) and two different blinds, boundary scalars included (1, order-1, leading-zero values); every 5th run replays the 3 Rust vectors (7 issuances); " +
			"non-trivial = a pair whose two blinds differ and whose sessions both completed under an entropy stream different from the first execution; distinct = distinct (type, blind class A, blind class B)",
		Real:        []string{"CreateTokenRequestWithBlind (types 1, 2), CreateTokenRequestWithBlinds (type 5)", "FinalizeToken(s)", "issuers", "request/response codecs", "batched response decoder (vector replay)"},
		Stub:        []string{"entropy source with POISON / DIFFERENT-STREAM faults", "network", "arena"},
		Assumptions: []string{"the 'on every run' clause is additionally served by the determinism self-test (same plan in fresh processes at GOMAXPROCS 1/4/16 gives identical fingerprints, which include request and token hashes)"},
	}
}

var ristrettoL, _ = new(big.Int).SetString("7237005577332262213973186563042994240857116359379907606001950938285454250989", 10)

// blindFor returns blind bytes of a class for a token type: 0 random, 1 one, 2 order-1,
// 3 leading zero bytes (small value), 4 random with a zero top byte.
func blindFor(typ int, class int, r *core.Rand, n *big.Int) []byte {
	var order *big.Int
	size := 48
	le := false
	switch typ {
	case 1:
		order = elliptic.P384().Params().N
	case 5:
		order, size, le = ristrettoL, 32, true
	case 2:
		order, size = n, 256
	}
	v := new(big.Int).SetBytes(r.Bytes(size))
	v.Mod(v, new(big.Int).Sub(order, big.NewInt(2)))
	v.Add(v, big.NewInt(2))
	switch class {
	case 1:
		v = big.NewInt(1)
	case 2:
		v = new(big.Int).Sub(order, big.NewInt(1))
	case 3:
		v = new(big.Int).SetBytes(r.Bytes(8))
		v.Add(v, big.NewInt(2))
	case 4:
		v.Rsh(v, 9)
		v.Add(v, big.NewInt(2))
	}
	if typ == 2 {
		// the blind must be invertible mod N; 1 and N-1 are, random values are with overwhelming probability
		if class == 2 {
			v = new(big.Int).Sub(n, big.NewInt(1))
		}
	}
	b := v.FillBytes(make([]byte, size))
	if le {
		for i, j := 0, len(b)-1; i < j; i, j = i+1, j-1 {
			b[i], b[j] = b[j], b[i]
		}
	}
	return b
}

func (c c11) Generate(seed uint64, tier string, idx int) *core.Plan {
	r := core.NewRand(core.MixI(core.Mix(seed, "C11/"+tier), idx))
	p := &core.Plan{Prop: "C11", Seed: r.U64(), Tier: tier, Cfg: map[string]int64{}}
	p.Cfg["spare"] = int64(r.Pick([]int{0, 7, 64}))
	p.Cfg["segmode"] = int64(r.Pick([]int{0, 2}))
	p.Cfg["bufreuse"] = int64(r.Intn(2))
	p.Cfg["scramble"] = int64(r.Intn(256))
	p.Steps = append(p.Steps, core.Step{Op: "iss", A: []int64{1, int64(r.Intn(1 << 20))}})
	p.Steps = append(p.Steps, core.Step{Op: "iss", A: []int64{2, int64(r.Intn(8))}})
	p.Steps = append(p.Steps, core.Step{Op: "iss", A: []int64{5, int64(r.Intn(1 << 20))}})
	np := r.Range(2, 6)
	id := 1
	for i := 0; i < np; i++ {
		t := r.Pick([]int{1, 2, 5})
		s := int64(r.Intn(1 << 30))
		ch := int64(chLens[r.Intn(len(chLens))])
		kind := int64(r.Intn(2))
		batch := int64(r.Range(1, 4))
		ca, cb := int64(r.Intn(5)), int64(r.Intn(5))
		for k, cls := range []int64{ca, cb} {
			a := make([]int64, sAnon+1)
			a[sID], a[sType], a[sChKind], a[sChLen], a[sSeed], a[sBatch] = int64(id), int64(t), kind, ch, s, batch
			p.Steps = append(p.Steps, core.Step{Op: "sess", A: a})
			p.Steps = append(p.Steps, core.Step{Op: "fixed", A: []int64{int64(id), cls, int64(r.Intn(1 << 30)), int64(k), s}})
			id++
		}
	}
	if idx%5 == 0 {
		p.Steps = append(p.Steps, core.Step{Op: "rust"})
	}
	return p
}

func (c c11) Execute(p *core.Plan) *core.Result {
	res := core.NewResult()
	w := BuildWorld(p, res, false)
	if len(w.I1) == 0 || len(w.I2) == 0 || len(w.I5) == 0 {
		res.Infra = "issuers missing"
		return res
	}
	classes := map[int]int64{}
	for _, st := range p.Steps {
		if st.Op != "fixed" {
			continue
		}
		s := w.Sessions[int(st.Arg(0, 0))]
		if s == nil {
			continue
		}
		r := core.NewRand(uint64(st.Arg(2, 0)))
		cls := int(st.Arg(1, 0))
		classes[s.ID] = st.Arg(1, 0)
		n := len(s.Nonces)
		for i := 0; i < n; i++ {
			var mod *big.Int
			if s.Type == 2 {
				mod = w.I2[s.Iss].Key.N
			}
			s.FixedBlinds = append(s.FixedBlinds, blindFor(s.Type, cls, r, mod))
		}
		if s.Type == 2 {
			s.Salt = core.NewRand(uint64(st.Arg(4, 0)) ^ 0x5A17).Bytes(48) // salt shared by both sessions of a pair
		}
		// the second session of a pair runs under another entropy stream
		s.Meta["stream"] = uint64(st.Arg(3, 0))
	}
	// purity under entropy faults, for every fixed-blind session
	for _, id := range w.Order {
		s := w.Sessions[id]
		if s.FixedBlinds == nil {
			continue
		}
		create := func() ([]byte, error) {
			switch s.Type {
			case 1:
				st, err := type1.BasicPrivateClient{}.CreateTokenRequestWithBlind(s.Challenge, s.Nonces[0], w.I1[s.Iss].KeyID, w.I1[s.Iss].Iss.TokenKey(), s.FixedBlinds[0])
				if err != nil {
					return nil, err
				}
				return st.Request().Marshal(), nil
			case 2:
				st, err := type2.BasicPublicClient{}.CreateTokenRequestWithBlind(s.Challenge, s.Nonces[0], w.I2[s.Iss].KeyID, &w.I2[s.Iss].Key.PublicKey, s.FixedBlinds[0], s.Salt)
				if err != nil {
					return nil, err
				}
				return st.Request().Marshal(), nil
			case 5:
				st, err := type5.BatchedPrivateClient{}.CreateTokenRequestWithBlinds(s.Challenge, s.Nonces, w.I5[s.Iss].KeyID, w.I5[s.Iss].Iss.TokenKey(), s.FixedBlinds)
				if err != nil {
					return nil, err
				}
				return st.Request().Marshal(), nil
			}
			return nil, fmt.Errorf("type")
		}
		w.Ent.Begin("client", fmt.Sprintf("s%d/pure/normal", s.ID))
		base, err := create()
		readsNormal := w.Ent.Reads
		if err != nil {
			res.Violate(fmt.Sprintf("C11/type%d/create-failed", s.Type), fmt.Sprintf("fixed-blind request creation failed (blind class %d): %v", classes[s.ID], err), -1)
			continue
		}
		w.Ent.Begin("client", fmt.Sprintf("s%d/pure/poison", s.ID))
		w.Ent.SetFault(entropy.Fault{Kind: entropy.Poison})
		poisoned, perr := create()
		fired := w.Ent.Fired
		res.FaultFired("E-POISON", true)
		w.Ent.Begin("client", fmt.Sprintf("s%d/pure/other", s.ID))
		w.Ent.SetStream(77)
		other, oerr := create()
		w.Ent.SetStream(0)
		res.FaultFired("E-DIFFERENT", true)
		res.Evals += 3
		if readsNormal != 0 || fired != 0 {
			res.Violate(fmt.Sprintf("C11/type%d/reads-entropy", s.Type), fmt.Sprintf("fixed-blind request creation read the entropy source (%d reads; %d under poison)", readsNormal, fired), -1)
		}
		if perr != nil || oerr != nil || !bytes.Equal(base, poisoned) || !bytes.Equal(base, other) {
			res.Violate(fmt.Sprintf("C11/type%d/not-pure", s.Type), fmt.Sprintf("fixed-blind request creation is not a pure function of its arguments (poison: %v, other stream: %v)", perr, oerr), -1)
		}
		// type 5: element i of the batch request is a function of (nonce i, blind i) alone — it
		// equals the element of the one-token request made from them
		if s.Type == 5 && len(s.Nonces) > 1 {
			w.Ent.Begin("client", fmt.Sprintf("s%d/pure/single", s.ID))
			w.Ent.SetFault(entropy.Fault{Kind: entropy.Poison})
			for i := range s.Nonces {
				st1, err := type5.BatchedPrivateClient{}.CreateTokenRequestWithBlinds(s.Challenge, s.Nonces[i:i+1], w.I5[s.Iss].KeyID, w.I5[s.Iss].Iss.TokenKey(), s.FixedBlinds[i:i+1])
				res.Evals++
				if err != nil {
					continue
				}
				single := st1.Request().Marshal()
				// batch encoding: type(2) key id(1) varint length, then 32-byte elements
				_, pl := refVarint(base[3:])
				if pl < 0 || len(single) < 4+32 || len(base) < 3+pl+32*(i+1) {
					continue
				}
				if !bytes.Equal(base[3+pl+32*i:3+pl+32*(i+1)], single[4:36]) {
					res.Violate("C11/type5/element-not-function-of-its-blind", fmt.Sprintf("element %d of a %d-token request made with fixed blinds differs from the one-token request made from the same nonce and blind", i, len(s.Nonces)), -1)
					break
				}
			}
			w.Ent.SetFault(entropy.Fault{})
		}
		// type 2: purity also for salts of other lengths (the token cannot be finalized then —
		// only request creation is judged)
		if s.Type == 2 {
			for _, sl := range []int{0, 1, 47, 49} {
				salt := core.NewRand(uint64(sl) + 11).Bytes(sl)
				mk := func() ([]byte, error) {
					st, err := type2.BasicPublicClient{}.CreateTokenRequestWithBlind(s.Challenge, s.Nonces[0], w.I2[s.Iss].KeyID, &w.I2[s.Iss].Key.PublicKey, s.FixedBlinds[0], salt)
					if err != nil {
						return nil, err
					}
					return st.Request().Marshal(), nil
				}
				w.Ent.Begin("client", fmt.Sprintf("s%d/pure/salt%d", s.ID, sl))
				a, ea := mk()
				reads := w.Ent.Reads
				w.Ent.Begin("client", fmt.Sprintf("s%d/pure/salt%d/other", s.ID, sl))
				w.Ent.SetStream(91)
				b2, eb := mk()
				w.Ent.SetStream(0)
				res.Evals++
				if (ea == nil) != (eb == nil) || (ea == nil && (!bytes.Equal(a, b2) || reads != 0)) {
					res.Violate("C11/type2/not-pure", fmt.Sprintf("fixed-blind request creation with a %d-byte salt is not a pure function of its arguments (%d entropy reads)", sl, reads), -1)
				}
			}
		}
	}
	// both sessions of every pair over the wire; the second under another entropy stream
	w.Observers = append(w.Observers, func(o *world.Outcome) {
		if o.Err != nil && o.Op != "redeem" {
			res.Violate(fmt.Sprintf("C11/type%d/honest-%s-failed", o.S.Type, o.Op), fmt.Sprintf("session %d (blind class %d): %v", o.S.ID, classes[o.S.ID], o.Err), -1)
		}
		if o.Op == "finalize" && o.Err == nil {
			// "the same key, challenge and nonce give ..." — the token must be the one for these arguments
			for i, t := range o.Tokens {
				if msg := CheckTokenBinding(o.S, i, t, hostKeyID(w, o.S)); msg != "" {
					res.Violate(fmt.Sprintf("C11/type%d/token-not-a-function-of-arguments", o.S.Type), fmt.Sprintf("session %d: %s (request creation depends on earlier calls?)", o.S.ID, msg), -1)
				}
			}
		}
	})
	StartAll(w)
	if !w.Net.Run() {
		res.Infra = "step budget exhausted"
	}
	for i := 0; i+1 < len(w.Order); i += 2 {
		a, b := w.Sessions[w.Order[i]], w.Sessions[w.Order[i+1]]
		if a.FixedBlinds == nil || b.FixedBlinds == nil || a.Type != b.Type {
			continue
		}
		res.Evals++
		if len(a.Tokens) == 0 || len(b.Tokens) == 0 || len(a.Tokens) != len(b.Tokens) {
			if len(res.Violations) == 0 {
				res.Violate(fmt.Sprintf("C11/type%d/incomplete", a.Type), fmt.Sprintf("pair %d/%d did not complete (%d / %d tokens)", a.ID, b.ID, len(a.Tokens), len(b.Tokens)), -1)
			}
			continue
		}
		differ := false
		for k := range a.FixedBlinds {
			if !bytes.Equal(a.FixedBlinds[k], b.FixedBlinds[k]) {
				differ = true
			}
		}
		for k := range a.Tokens {
			ta, tb := a.Tokens[k].Marshal(), b.Tokens[k].Marshal()
			if !bytes.Equal(ta, tb) {
				res.Violate(fmt.Sprintf("C11/type%d/token-depends-on-blind", a.Type), fmt.Sprintf("sessions %d and %d have the same key, challenge, nonce%s and blinds of classes %d / %d, but their tokens differ at byte %d", a.ID, b.ID, map[bool]string{true: ", salt", false: ""}[a.Type == 2], classes[a.ID], classes[b.ID], firstDiff(ta, tb)), -1)
			}
		}
		if differ && !bytes.Equal(a.ReqBytes, b.ReqBytes) {
			res.Nontrivial(fmt.Sprintf("t%d/%d/%d", a.Type, classes[a.ID], classes[b.ID]))
		}
		if differ && bytes.Equal(a.ReqBytes, b.ReqBytes) {
			res.Violate(fmt.Sprintf("C11/type%d/blind-ignored", a.Type), fmt.Sprintf("sessions %d and %d used different blinds but produced identical requests", a.ID, b.ID), -1)
		}
	}
	for _, st := range p.Steps {
		if st.Op == "rust" {
			c.rust(w, res)
		}
	}
	res.Sample = map[string]any{"pairs": len(w.Order) / 2, "comparisons": res.Evals}
	finish(w, res)
	return res
}

type rustIssuance struct {
	Type      string `json:"type"`
	SkS       string `json:"skS"`
	PkS       string `json:"pkS"`
	Challenge string `json:"token_challenge"`
	Nonce     string `json:"nonce"`
	Blind     string `json:"blind"`
	Salt      string `json:"salt"`
	Token     string `json:"token"`
}

// rust replays each vector of the Rust implementation as a recorded trace from a foreign node.
func (c c11) rust(w *world.World, res *core.Result) {
	data, err := os.ReadFile(core.RepoDir() + "/tokens/batched/batched-issuance-test-vectors-rust.json")
	if err != nil {
		res.Infra = "cannot read the Rust interop vectors: " + err.Error()
		return
	}
	var vs []struct {
		Issuance      []rustIssuance `json:"issuance"`
		TokenRequest  string         `json:"token_request"`
		TokenResponse string         `json:"token_response"`
	}
	if err := json.Unmarshal(data, &vs); err != nil {
		res.Infra = "cannot parse the Rust interop vectors: " + err.Error()
		return
	}
	for vi, v := range vs {
		reqList, respList := core.Unhex(v.TokenRequest), core.Unhex(v.TokenResponse)
		_, n := refVarint(reqList)
		off := n
		entries, derr := batched.UnmarshalBatchedTokenResponses(respList)
		if derr != nil || len(entries) != len(v.Issuance) {
			res.Violate("C11/rust/response-list", fmt.Sprintf("vector %d: the Rust response list decodes to %d entries (%v), want %d", vi, len(entries), derr, len(v.Issuance)), -1)
			continue
		}
		var batchReqs []tokens.TokenRequestWithDetails
		for ii, is := range v.Issuance {
			pkS, ch, nonce, blind, want := core.Unhex(is.PkS), core.Unhex(is.Challenge), core.Unhex(is.Nonce), core.Unhex(is.Blind), core.Unhex(is.Token)
			kid := sha256.Sum256(pkS)
			var req []byte
			var fin func([]byte) (tokens.Token, error)
			var own func() ([]byte, error)
			w.Ent.Begin("client", fmt.Sprintf("rust/%d/%d", vi, ii))
			w.Ent.SetFault(entropy.Fault{Kind: entropy.Poison})
			switch is.Type {
			case "0001":
				pub := new(oprf.PublicKey)
				if err := pub.UnmarshalBinary(oprf.SuiteP384, pkS); err != nil {
					res.Infra = "Rust vector public key: " + err.Error()
					return
				}
				st, err := type1.BasicPrivateClient{}.CreateTokenRequestWithBlind(ch, nonce, kid[:], pub, blind)
				if err != nil {
					res.Violate("C11/rust/create", err.Error(), -1)
					continue
				}
				req, fin = st.Request().Marshal(), st.FinalizeToken
				batchReqs = append(batchReqs, st.Request())
				own = func() ([]byte, error) {
					sk := new(oprf.PrivateKey)
					if err := sk.UnmarshalBinary(oprf.SuiteP384, core.Unhex(is.SkS)); err != nil {
						return nil, err
					}
					r := new(type1.BasicPrivateTokenRequest)
					if !r.Unmarshal(req) {
						return nil, fmt.Errorf("request decode")
					}
					return type1.NewBasicPrivateIssuer(sk).Evaluate(r)
				}
			case "0002":
				blk, _ := pem.Decode(core.Unhex(is.SkS))
				k, err := x509.ParsePKCS8PrivateKey(blk.Bytes)
				if err != nil {
					res.Infra = "Rust vector key: " + err.Error()
					return
				}
				sk := k.(*rsa.PrivateKey)
				st, err := type2.BasicPublicClient{}.CreateTokenRequestWithBlind(ch, nonce, kid[:], &sk.PublicKey, blind, core.Unhex(is.Salt))
				if err != nil {
					res.Violate("C11/rust/create", err.Error(), -1)
					continue
				}
				req, fin = st.Request().Marshal(), st.FinalizeToken
				batchReqs = append(batchReqs, st.Request())
				own = func() ([]byte, error) {
					r := new(type2.BasicPublicTokenRequest)
					if !r.Unmarshal(req) {
						return nil, fmt.Errorf("request decode")
					}
					return type2.NewBasicPublicIssuer(sk).Evaluate(r)
				}
			default:
				continue
			}
			w.Ent.SetFault(entropy.Fault{})
			res.Evals += 3
			if off+len(req) > len(reqList) || !bytes.Equal(reqList[off:off+len(req)], req) {
				res.Violate("C11/rust/request-bytes", fmt.Sprintf("vector %d issuance %d (type %s): the request rebuilt from the vector's blind differs from the bytes in token_request", vi, ii, is.Type), -1)
			}
			off += len(req)
			if tok, err := fin(entries[ii]); err != nil || !bytes.Equal(tok.Marshal(), want) {
				res.Violate("C11/rust/token-from-rust-response", fmt.Sprintf("vector %d issuance %d (type %s): finalizing the Rust response does not give the vector's token (%v)", vi, ii, is.Type, err), -1)
			}
			w.Ent.Begin("issuer", fmt.Sprintf("rust/%d/%d", vi, ii))
			resp, err := own()
			if err != nil {
				res.Violate("C11/rust/own-issuer", fmt.Sprintf("vector %d issuance %d: %v", vi, ii, err), -1)
				continue
			}
			if tok, err := fin(resp); err != nil || !bytes.Equal(tok.Marshal(), want) {
				res.Violate("C11/rust/token-from-own-response", fmt.Sprintf("vector %d issuance %d (type %s): our issuer's response does not finalize to the vector's token (%v)", vi, ii, is.Type, err), -1)
			}
			res.Probe("Rust vector issuance replayed")
		}
		// the whole batch through the repository's batch client: byte-identical to token_request
		if len(batchReqs) == len(v.Issuance) {
			res.Evals++
			br, err := batched.NewBasicClient().CreateTokenRequest(batchReqs)
			if err != nil || !bytes.Equal(br.Marshal(), reqList) {
				res.Violate("C11/rust/batch-request-bytes", fmt.Sprintf("vector %d: the batch request built by BatchedClient from the vector's requests differs from the Rust token_request (%v)", vi, err), -1)
			}
		}
	}
}
