// Package simnet is the simulated network: a discrete-event queue ordered by (simulated
// time, sequence) that carries every message as a byte stream framed with the repository's
// own quicwire package, cut into segments (short reads) and reassembled at the receiver.
// Simulated time only orders deliveries; the repository reads no clock.
package simnet

import (
	"bytes"
	"container/heap"
	"fmt"

	"github.com/cloudflare/pat-go/quicwire"

	"verif/internal/core"
)

type Msg struct {
	ID      int
	Sess    int
	Kind    int
	From    string
	To      string
	Payload []byte
	Side    [][]byte
	Tag     uint64   // header field, boundary-biased by the plan, checked on arrival
	Faults  []string // labels of the faults applied to this copy
	Orig    []byte   // honest payload before corruption (nil if untouched)
	Variant int      // index within an enumerated family of variants (0 = honest)
	Meta    any
}

type event struct {
	at  int64
	seq uint64
	run func()
}

type evq []event

func (q evq) Len() int { return len(q) }
func (q evq) Less(i, j int) bool {
	if q[i].at != q[j].at {
		return q[i].at < q[j].at
	}
	return q[i].seq < q[j].seq
}
func (q evq) Swap(i, j int) { q[i], q[j] = q[j], q[i] }
func (q *evq) Push(x any)   { *q = append(*q, x.(event)) }
func (q *evq) Pop() any {
	old := *q
	n := len(old)
	x := old[n-1]
	*q = old[:n-1]
	return x
}

type Net struct {
	Now     int64
	seq     uint64
	q       evq
	Log     *core.EventLog
	Res     *core.Result
	Handler func(m *Msg)
	// SegSeed and Jitter come from the plan; cut points and latencies are pure functions of
	// them and the message id.
	SegSeed uint64
	SegMode int // 0 whole, 1 byte-at-a-time (small frames), 2 two cuts, 3 mixed per message
	Jitter  int64
	BaseLat int64
	nextID  int
	Steps   int
	MaxStep int
	Frames  int
	Segs    int
}

func New(log *core.EventLog, res *core.Result) *Net {
	return &Net{Log: log, Res: res, BaseLat: 1_000_000, MaxStep: 2_000_000}
}

func (n *Net) After(d int64, f func()) {
	n.seq++
	heap.Push(&n.q, event{n.Now + d, n.seq, f})
}

func (n *Net) NextID() int { n.nextID++; return n.nextID }

// Frame encodes a message with quicwire and checks SizeVarint against what AppendVarint did.
func (n *Net) Frame(m *Msg) []byte {
	size := quicwire.SizeVarint(uint64(m.Sess)) + quicwire.SizeVarint(uint64(m.Kind)) + quicwire.SizeVarint(m.Tag) +
		quicwire.SizeVarint(uint64(len(m.Side))) + quicwire.SizeVarint(uint64(len(m.Payload))) + len(m.Payload)
	for _, s := range m.Side {
		size += quicwire.SizeVarint(uint64(len(s))) + len(s)
	}
	b := make([]byte, 0, size)
	b = quicwire.AppendVarint(b, uint64(m.Sess))
	b = quicwire.AppendVarint(b, uint64(m.Kind))
	b = quicwire.AppendVarint(b, m.Tag)
	b = quicwire.AppendVarint(b, uint64(len(m.Side)))
	b = quicwire.AppendVarintBytes(b, m.Payload)
	for _, s := range m.Side {
		b = quicwire.AppendVarintBytes(b, s)
	}
	if len(b) != size {
		n.Res.Violate("FRAMING/size-mismatch", fmt.Sprintf("SizeVarint predicted %d bytes, Append* wrote %d", size, len(b)), -1)
	}
	return b
}

// announced returns the encoded length the first byte of a varint announces (RFC 9000 §16).
func announced(b0 byte) int { return 1 << (b0 >> 6) }

// parse tries to decode one frame from buf using the repository's consumers. It returns
// ok=false when more bytes are needed. Every consumer result is cross-checked with the
// harness's own idea of "complete".
func (n *Net) parse(buf []byte) (m *Msg, ok bool) {
	off := 0
	vi := func() (uint64, bool) {
		v, k := quicwire.ConsumeVarint(buf[off:])
		need := 1
		if len(buf) > off {
			need = announced(buf[off])
		}
		complete := len(buf)-off >= need
		if (k < 0) == complete {
			n.Res.Violate("FRAMING/varint-completeness", fmt.Sprintf("ConsumeVarint n=%d on %d available bytes, %d announced", k, len(buf)-off, need), -1)
		}
		if k < 0 {
			return 0, false
		}
		if k != need {
			n.Res.Violate("FRAMING/varint-length", fmt.Sprintf("ConsumeVarint n=%d, announced %d", k, need), -1)
		}
		off += k
		return v, true
	}
	vb := func() ([]byte, bool) {
		start := off
		// harness's own view
		need := 1
		if len(buf) > off {
			need = announced(buf[off])
		}
		complete := false
		if len(buf)-off >= need {
			var l uint64
			for i := 0; i < need; i++ {
				c := buf[off+i]
				if i == 0 {
					c &= 0x3f
				}
				l = l<<8 | uint64(c)
			}
			complete = uint64(len(buf)-off-need) >= l
		}
		v, k := quicwire.ConsumeVarintBytes(buf[start:])
		if (k < 0) == complete {
			n.Res.Violate("FRAMING/bytes-completeness", fmt.Sprintf("ConsumeVarintBytes n=%d on %d available bytes", k, len(buf)-off), -1)
		}
		if k < 0 {
			return nil, false
		}
		off += k
		return v, true
	}
	m = &Msg{}
	var v uint64
	if v, ok = vi(); !ok {
		return nil, false
	}
	m.Sess = int(v)
	if v, ok = vi(); !ok {
		return nil, false
	}
	m.Kind = int(v)
	if m.Tag, ok = vi(); !ok {
		return nil, false
	}
	var ns uint64
	if ns, ok = vi(); !ok {
		return nil, false
	}
	var p []byte
	if p, ok = vb(); !ok {
		return nil, false
	}
	m.Payload = append([]byte(nil), p...)
	for i := uint64(0); i < ns; i++ {
		if p, ok = vb(); !ok {
			return nil, false
		}
		m.Side = append(m.Side, append([]byte(nil), p...))
	}
	if off != len(buf) {
		// more than one frame is never written to one stream here
		n.Res.Violate("FRAMING/trailing", fmt.Sprintf("frame parsed to %d of %d bytes", off, len(buf)), -1)
	}
	return m, true
}

func (n *Net) cuts(id int, l int) []int {
	mode := n.SegMode
	h := core.MixI(n.SegSeed, id)
	if mode == 3 {
		mode = int(h % 3)
		h = core.MixI(h, 1)
	}
	switch mode {
	case 1:
		if l <= 96 {
			c := make([]int, 0, l)
			for i := 1; i < l; i++ {
				c = append(c, i)
			}
			return c
		}
		// one byte at a time over the header, then coarse
		c := []int{1, 2, 3, 4, 5, 6, 7, 8, 9, 10, 11, 12}
		c = append(c, l/2, l-1)
		return c
	case 2:
		if l < 3 {
			return nil
		}
		a := 1 + int(h%uint64(l-1))
		b := 1 + int(core.MixI(h, 2)%uint64(l-1))
		if a > b {
			a, b = b, a
		}
		if a == b {
			return []int{a}
		}
		return []int{a, b}
	}
	return nil
}

// Send frames m, cuts the frame into segments and schedules their arrival. extraDelay is
// added to the drawn latency (DELAY / REORDER faults).
func (n *Net) Send(m *Msg, extraDelay int64) {
	if m.ID == 0 {
		m.ID = n.NextID()
	}
	frame := n.Frame(m)
	n.Frames++
	lat := n.BaseLat
	if n.Jitter > 0 {
		lat += int64(core.MixI(n.SegSeed^0x5151, m.ID) % uint64(n.Jitter))
	}
	lat += extraDelay
	cuts := n.cuts(m.ID, len(frame))
	n.Log.Add("send id=%d sess=%d kind=%d %s>%s len=%d h=%s faults=%v segs=%d", m.ID, m.Sess, m.Kind, m.From, m.To, len(m.Payload), core.H(m.Payload), m.Faults, len(cuts)+1)
	var rx []byte
	prev := 0
	pieces := append(append([]int(nil), cuts...), len(frame))
	meta := m
	for i, c := range pieces {
		seg := frame[prev:c]
		prev = c
		last := i == len(pieces)-1
		n.Segs++
		n.After(lat+int64(i)*1000, func() {
			rx = append(rx, seg...)
			got, ok := n.parse(rx)
			if ok != last {
				if ok {
					n.Res.Violate("FRAMING/early-complete", fmt.Sprintf("frame complete after %d of %d bytes", len(rx), len(frame)), -1)
				} else {
					n.Res.Violate("FRAMING/incomplete", fmt.Sprintf("frame of %d bytes not parsed", len(frame)), -1)
				}
			}
			if !last {
				n.Res.Probes["net:partial-frame-parse"]++
				return
			}
			if !ok {
				return
			}
			if got.Sess != meta.Sess || got.Kind != meta.Kind || got.Tag != meta.Tag || !bytes.Equal(got.Payload, meta.Payload) || len(got.Side) != len(meta.Side) {
				n.Res.Violate("FRAMING/roundtrip", fmt.Sprintf("frame id=%d decoded differently from what was sent", meta.ID), -1)
				return
			}
			for j := range got.Side {
				if !bytes.Equal(got.Side[j], meta.Side[j]) {
					n.Res.Violate("FRAMING/roundtrip", fmt.Sprintf("frame id=%d side %d decoded differently", meta.ID, j), -1)
					return
				}
			}
			got.ID, got.From, got.To, got.Faults, got.Orig, got.Variant, got.Meta = meta.ID, meta.From, meta.To, meta.Faults, meta.Orig, meta.Variant, meta.Meta
			n.Log.Add("deliver id=%d t=%d", got.ID, n.Now)
			n.Handler(got)
		})
	}
}

// Run processes events until the queue is empty or the step budget is used up.
func (n *Net) Run() bool {
	for n.q.Len() > 0 {
		if n.Steps >= n.MaxStep {
			return false
		}
		ev := heap.Pop(&n.q).(event)
		n.Now = ev.at
		n.Steps++
		ev.run()
	}
	return true
}
