package core

import (
	"bufio"
	"bytes"
	"encoding/json"
	"fmt"
	"os"
	"os/exec"
	"path/filepath"
	"runtime/debug"
	"sort"
	"strconv"
	"strings"
	"sync"
	"sync/atomic"
	"syscall"
	"time"
)

// Exit codes: 0 held, 1 violation, 2 infrastructure trouble (never reported as a violation).

func Root() string {
	if r := os.Getenv("VERIF_ROOT"); r != "" {
		return r
	}
	return "/verif"
}

// RepoDir is the working tree of the repository the engines were built against.
func RepoDir() string {
	if r := os.Getenv("VERIF_REPO"); r != "" {
		return r
	}
	return "/repo"
}

// OutDir is where evidence and replay files go (VERIF_OUT overrides /verif for scratch runs of
// the sensitivity tooling, so that they do not overwrite the evidence of the registered checks).
func OutDir() string {
	if r := os.Getenv("VERIF_OUT"); r != "" {
		return r
	}
	return Root()
}

func SeedFromEnv() uint64 {
	if s := os.Getenv("VERIF_SEED"); s != "" {
		if v, err := strconv.ParseUint(s, 10, 64); err == nil {
			return v
		}
		if v, err := strconv.ParseInt(s, 10, 64); err == nil {
			return uint64(v)
		}
	}
	return 20261002
}

// SafeExecute runs a plan with harness panics caught: a plan the interpreter cannot run
// (e.g. after the minimiser removed a step something else refers to) is infrastructure
// trouble for that plan, never a violation.
func SafeExecute(sc Scenario, p *Plan) (res *Result) {
	defer func() {
		if r := recover(); r != nil {
			res = NewResult()
			res.Index = p.Index
			res.Infra = fmt.Sprintf("harness panic: %v\n%s", r, debug.Stack())
		}
	}()
	res = sc.Execute(p)
	res.Index = p.Index
	return res
}

// WorkerMain executes plans idx = from, from+stride, ... < total and prints one JSON line per
// run, preceded by a journal line so that the driver can attribute a process death.
// LimitAddressSpace caps the address space of a worker process (not possible for -race
// binaries, which reserve terabytes of shadow memory): an attacker-chosen allocation then
// fails fast with "fatal error: out of memory" — a process death the driver attributes through
// the journal — instead of eating the machine.
func LimitAddressSpace(sc Scenario) {
	if sc.Describe().Race {
		return
	}
	gib := uint64(6)
	if g := sc.Describe().AddressSpaceGiB; g > 0 {
		gib = uint64(g)
	}
	lim := syscall.Rlimit{Cur: gib << 30, Max: gib << 30}
	syscall.Setrlimit(syscall.RLIMIT_AS, &lim)
}

func WorkerMain(sc Scenario, tier string, seed uint64, from, stride, total int) {
	LimitAddressSpace(sc)
	out := bufio.NewWriterSize(os.Stdout, 1<<16)
	defer out.Flush()
	maxPlans := sc.Describe().PlansPerProcess
	done := 0
	for i := from; i < total; i += stride {
		if maxPlans > 0 && done >= maxPlans {
			fmt.Fprintf(out, "PAUSE %d\n", i)
			return
		}
		done++
		p := sc.Generate(seed, tier, i)
		p.Index = i
		fmt.Fprintf(out, "BEGIN %d\n", i)
		out.Flush()
		res := SafeExecute(sc, p)
		if len(res.Violations) > 0 || res.Infra != "" {
			res.Plan = p
		}
		b, _ := json.Marshal(res)
		out.Write(b)
		out.WriteByte('\n')
		out.Flush()
		if ExitAfterThisPlan {
			// this process holds goroutines that cannot be recovered: a fresh one continues
			if i+stride < total {
				fmt.Fprintf(out, "PAUSE %d\n", i+stride)
			} else {
				fmt.Fprintf(out, "END\n")
			}
			out.Flush()
			os.Exit(0)
		}
	}
	fmt.Fprintf(out, "END\n")
}

// ExitAfterThisPlan is set by a scenario whose execution left the process in a state that
// must not run another plan.
var ExitAfterThisPlan bool

// ExecMain reads one plan from stdin (or a file), executes it and prints the result.
func ExecMain(path string) int {
	var data []byte
	var err error
	if path == "-" {
		data, err = readAll(os.Stdin)
	} else {
		data, err = os.ReadFile(path)
	}
	if err != nil {
		fmt.Fprintln(os.Stderr, err)
		return 2
	}
	var rf ReplayFile
	if err := json.Unmarshal(data, &rf); err != nil || rf.Plan == nil {
		var p Plan
		if err2 := json.Unmarshal(data, &p); err2 != nil {
			fmt.Fprintln(os.Stderr, "cannot parse plan:", err, err2)
			return 2
		}
		rf.Plan = &p
	}
	sc := Lookup(rf.Plan.Prop)
	if sc == nil {
		fmt.Fprintln(os.Stderr, "unknown property", rf.Plan.Prop)
		return 2
	}
	LimitAddressSpace(sc)
	res := SafeExecute(sc, rf.Plan)
	b, _ := json.Marshal(res)
	os.Stdout.Write(b)
	os.Stdout.Write([]byte{'\n'})
	if ExitAfterThisPlan {
		os.Exit(0)
	}
	return 0
}

func readAll(f *os.File) ([]byte, error) {
	var buf bytes.Buffer
	_, err := buf.ReadFrom(f)
	return buf.Bytes(), err
}

type ReplayFile struct {
	Property   string `json:"property"`
	Signature  string `json:"signature"`
	Detail     string `json:"detail"`
	Seed       uint64 `json:"seed"`
	Tier       string `json:"tier"`
	Minimised  bool   `json:"minimised"`
	ShrinkRuns int    `json:"shrink_runs"`
	OrigSteps  int    `json:"orig_steps"`
	Plan       *Plan  `json:"plan"`
}

type Driver struct {
	Self    string // path of this binary
	RaceBin string // path of the -race worker binary (C17), if any
	Workers int
}

// env returns the environment of a worker / exec process.
func (d *Driver) env(sc Scenario) []string {
	e := append(os.Environ(), "GORACE=halt_on_error=0 history_size=7")
	if sc.Describe().Race {
		dir := filepath.Join(os.Getenv("HOME"), ".cache", "verif-work", fmt.Sprintf("racelogs-%d", os.Getpid()))
		os.MkdirAll(dir, 0o755)
		prefix := filepath.Join(dir, "race")
		e = append(os.Environ(), "GORACE=log_path="+prefix+" halt_on_error=0 history_size=7", "VERIF_RACE_LOG="+prefix)
	}
	return e
}

// Cleanup removes scratch files of this driver process.
func (d *Driver) Cleanup() {
	os.RemoveAll(filepath.Join(os.Getenv("HOME"), ".cache", "verif-work", fmt.Sprintf("racelogs-%d", os.Getpid())))
}

func (d *Driver) bin(sc Scenario) string {
	if sc.Describe().Race && d.RaceBin != "" {
		return d.RaceBin
	}
	return d.Self
}

// execPlan runs one plan in a fresh process. died reports that the process did not produce a
// result (crash, fatal error, kill).
func (d *Driver) execPlan(sc Scenario, p *Plan, timeout time.Duration) (res *Result, died bool, tail string) {
	data, _ := json.Marshal(p)
	cmd := exec.Command(d.bin(sc), "exec", "-")
	cmd.Stdin = bytes.NewReader(data)
	var stdout, stderr bytes.Buffer
	cmd.Stdout = &stdout
	cmd.Stderr = &stderr
	cmd.Env = d.env(sc)
	if err := cmd.Start(); err != nil {
		return nil, true, err.Error()
	}
	done := make(chan error, 1)
	go func() { done <- cmd.Wait() }()
	select {
	case <-done:
	case <-time.After(timeout):
		cmd.Process.Kill()
		<-done
		return nil, true, "timeout after " + timeout.String()
	}
	var r Result
	line := bytes.TrimSpace(stdout.Bytes())
	if i := bytes.LastIndexByte(line, '\n'); i >= 0 {
		line = line[i+1:]
	}
	if err := json.Unmarshal(line, &r); err != nil {
		t := stderr.String()
		if len(t) > 3000 {
			t = t[:1500] + "\n…\n" + t[len(t)-1500:]
		}
		return nil, true, t
	}
	r.stderr = stderr.String()
	return &r, false, ""
}

func hasSig(r *Result, sig string) bool {
	if r == nil {
		return false
	}
	for _, v := range r.Violations {
		if v.Sig == sig {
			return true
		}
	}
	return false
}

// Minimise is delta debugging on the plan: drop steps (halves, then singles), then shrink
// integer arguments and configuration values, keeping a change iff the same signature still
// fires. Bounded by budget re-executions.
func (d *Driver) Minimise(sc Scenario, p *Plan, sig string, budget int, timeout time.Duration) (*Plan, int) {
	runs := 0
	deadline := time.Now().Add(100 * time.Second) // wall budget per signature (slow violations, e.g. hangs, shrink less)
	try := func(q *Plan) bool {
		if runs >= budget || time.Now().After(deadline) {
			return false
		}
		runs++
		if strings.Contains(sig, "/process-death") {
			_, died, _ := d.execPlan(sc, q, timeout)
			return died
		}
		r, died, _ := d.execPlan(sc, q, timeout)
		return !died && hasSig(r, sig)
	}
	cur := p.Clone()
	// 1. drop chunks of steps
	for chunk := len(cur.Steps) / 2; chunk >= 1; chunk /= 2 {
		for i := 0; i+chunk <= len(cur.Steps) && runs < budget; {
			q := cur.Clone()
			q.Steps = append(q.Steps[:i:i], q.Steps[i+chunk:]...)
			if try(q) {
				cur = q
			} else {
				i += chunk
			}
		}
	}
	// 2. shrink integer arguments
	for si := range cur.Steps {
		for ai := range cur.Steps[si].A {
			v := cur.Steps[si].A[ai]
			for _, cand := range []int64{0, 1, v / 2} {
				if cand == v || runs >= budget {
					continue
				}
				q := cur.Clone()
				q.Steps[si].A[ai] = cand
				if try(q) {
					cur = q
					break
				}
			}
		}
	}
	// 3. configuration knobs towards 0
	for _, k := range SortedKeys(cur.Cfg) {
		if cur.Cfg[k] == 0 || runs >= budget {
			continue
		}
		q := cur.Clone()
		q.Cfg[k] = 0
		if try(q) {
			cur = q
		}
	}
	return cur, runs
}

type aggregate struct {
	evals     int
	runs      int
	fps       map[string]bool
	nontriv   map[string]bool
	states    map[string]bool
	faults    map[string]FaultCount
	probes    map[string]int
	simNanos  int64
	samples   []any
	viol      map[string]*Result // first result per signature
	violCount map[string]int
	infra     []string
}

func (a *aggregate) add(r *Result) {
	a.runs++
	a.evals += r.Evals
	a.fps[r.Fingerprint] = true
	for _, k := range r.NontrivKeys {
		a.nontriv[k] = true
	}
	for _, k := range r.States {
		a.states[k] = true
	}
	for k, v := range r.Faults {
		c := a.faults[k]
		c[0] += v[0]
		c[1] += v[1]
		c[2] += v[2]
		a.faults[k] = c
	}
	for k, v := range r.Probes {
		a.probes[k] += v
	}
	a.simNanos += r.SimNanos
	if r.Sample != nil && len(a.samples) < 4 {
		a.samples = append(a.samples, r.Sample)
	}
	if r.Infra != "" {
		a.infra = append(a.infra, fmt.Sprintf("run %d: %s", r.Index, r.Infra))
	}
	for _, v := range r.Violations {
		a.violCount[v.Sig]++
		if _, ok := a.viol[v.Sig]; !ok {
			a.viol[v.Sig] = r
		}
	}
}

// Check runs a property's tier and returns the exit code.
func (d *Driver) Check(id, tier string) int {
	sc := Lookup(id)
	if sc == nil {
		fmt.Fprintln(os.Stderr, "unknown property", id)
		return 2
	}
	desc := sc.Describe()
	if desc.Race && d.RaceBin == "" {
		fmt.Fprintln(os.Stderr, "INFRA: property", id, "needs the -race engine (run it through ./check)")
		return 2
	}
	defer d.Cleanup()
	rid := id // property id violations are reported under
	if desc.ReportAs != "" {
		rid = desc.ReportAs
	}
	seed := SeedFromEnv()
	start := time.Now()
	total := sc.Runs(tier)
	nw := d.Workers
	if nw > total {
		nw = total
	}
	agg := &aggregate{fps: map[string]bool{}, nontriv: map[string]bool{}, states: map[string]bool{}, faults: map[string]FaultCount{},
		probes: map[string]int{}, viol: map[string]*Result{}, violCount: map[string]int{}}
	var mu sync.Mutex
	var wg sync.WaitGroup
	deaths := []int{}
	knownEarly := LoadFindings()
	violRuns := 0
	var stopEarly atomic.Bool
	deathCapNoted := false
	deathTail := map[int]string{}
	perWorkerTimeout := 40 * time.Minute
	if tier == "thorough" {
		perWorkerTimeout = 6 * time.Hour
	}
	for wk := 0; wk < nw; wk++ {
		wg.Add(1)
		go func(wk int) {
			defer wg.Done()
			from := wk
			for from < total && !stopEarly.Load() {
				// (re)start a worker at index from; a death resumes after the dead index
				cmd := exec.Command(d.bin(sc), "worker", id, tier, strconv.FormatUint(seed, 10), strconv.Itoa(from), strconv.Itoa(nw), strconv.Itoa(total))
				cmd.Env = d.env(sc)
				stdout, _ := cmd.StdoutPipe()
				var stderr bytes.Buffer
				cmd.Stderr = &stderr
				if err := cmd.Start(); err != nil {
					mu.Lock()
					agg.infra = append(agg.infra, "cannot start worker: "+err.Error())
					mu.Unlock()
					return
				}
				timer := time.AfterFunc(perWorkerTimeout, func() { cmd.Process.Kill() })
				sc2 := bufio.NewScanner(stdout)
				sc2.Buffer(make([]byte, 1<<20), 1<<28)
				cur := -1
				ended := false
				paused := -1
				for sc2.Scan() {
					line := sc2.Bytes()
					if bytes.HasPrefix(line, []byte("BEGIN ")) {
						cur, _ = strconv.Atoi(string(line[6:]))
						continue
					}
					if bytes.Equal(line, []byte("END")) {
						ended = true
						continue
					}
					if bytes.HasPrefix(line, []byte("PAUSE ")) {
						paused, _ = strconv.Atoi(string(line[6:]))
						continue
					}
					var r Result
					if err := json.Unmarshal(line, &r); err != nil {
						continue
					}
					r.stderr = ""
					mu.Lock()
					agg.add(&r)
					for _, v := range r.Violations {
						if knownEarly.Match(rid, v.Sig) == nil { // known findings do not count
							violRuns++
							break
						}
					}
					enough := violRuns >= 24
					mu.Unlock()
					cur = -1
					if enough {
						// the tree is broken for this property: 24 violating runs are evidence enough;
						// do not spend the rest of the budget on it
						stopEarly.Store(true)
					}
					if stopEarly.Load() {
						cmd.Process.Kill()
						ended = true
					}
				}
				cmd.Wait()
				timer.Stop()
				if ended {
					return
				}
				if paused >= 0 {
					from = paused // a fresh process continues (cold start per process)
					continue
				}
				// the worker died while executing plan cur
				mu.Lock()
				if len(deaths) >= 24 {
					// a systematic crasher: enough evidence, do not restart workers for ever
					if !deathCapNoted {
						deathCapNoted = true
						agg.probes["driver: stopped restarting workers after 24 process deaths"]++
					}
					mu.Unlock()
					return
				}
				if cur >= 0 {
					deaths = append(deaths, cur)
					t := stderr.String()
					if len(t) > 4000 {
						t = t[:2000] + "\n…\n" + t[len(t)-2000:]
					}
					deathTail[cur] = t
				} else {
					agg.infra = append(agg.infra, "worker ended without END marker and without a plan in flight: "+tailStr(stderr.String(), 800))
					mu.Unlock()
					return
				}
				mu.Unlock()
				from = cur + nw
			}
		}(wk)
	}
	wg.Wait()

	// process deaths: confirm by single-plan replay in a fresh process
	sort.Ints(deaths)
	if len(deaths) > 6 {
		agg.probes["driver: process deaths beyond the first 6 not individually replayed"] += len(deaths) - 6
		deaths = deaths[:6]
	}
	for _, idx := range deaths {
		p := sc.Generate(seed, tier, idx)
		p.Index = idx
		if !desc.Isolated {
			agg.infra = append(agg.infra, fmt.Sprintf("worker died on plan %d: %s", idx, tailStr(deathTail[idx], 1500)))
			continue
		}
		_, died, tail := d.execPlan(sc, p, 5*time.Minute)
		if !died {
			agg.infra = append(agg.infra, fmt.Sprintf("worker died on plan %d but the single-plan replay survived: %s", idx, tailStr(deathTail[idx], 800)))
			continue
		}
		sig := id + "/process-death/" + deathClass(tail+deathTail[idx])
		r := NewResult()
		r.Index = idx
		r.Plan = p
		r.Violations = []Violation{{Sig: sig, Detail: tailStr(tail, 600), Step: -1}}
		agg.violCount[sig]++
		if _, ok := agg.viol[sig]; !ok {
			agg.viol[sig] = r
		}
	}

	known := LoadFindings()
	knownHits := map[*Finding][]string{}
	exit := 0
	var reported []string
	minimised := 0
	for _, sig := range SortedKeys(agg.viol) {
		r := agg.viol[sig]
		var detail string
		for _, v := range r.Violations {
			if v.Sig == sig {
				detail = v.Detail
			}
		}
		if kf := known.Match(rid, sig); kf != nil {
			knownHits[kf] = append(knownHits[kf], fmt.Sprintf("%s (%d runs)", sig, agg.violCount[sig]))
			continue
		}
		if len(reported) >= 12 {
			// enough replay files; the remaining signatures are listed only
			fmt.Printf("  (also) signature: %s — %s (%d runs)\n", sig, detail, agg.violCount[sig])
			reported = append(reported, sig)
			continue
		}
		rf := &ReplayFile{Property: rid, Signature: sig, Detail: detail, Seed: seed, Tier: tier, Plan: r.Plan, OrigSteps: len(r.Plan.Steps)}
		if minimised < 3 {
			minimised++
			mp, n := d.Minimise(sc, r.Plan, sig, 120, 3*time.Minute)
			rf.Plan, rf.Minimised, rf.ShrinkRuns = mp, true, n
		}
		path := filepath.Join(OutDir(), "replays", fmt.Sprintf("%s-%d-%d.json", id, seed, len(reported)))
		os.MkdirAll(filepath.Dir(path), 0o755)
		b, _ := json.MarshalIndent(rf, "", " ")
		os.WriteFile(path, b, 0o644)
		fmt.Printf("VIOLATION property=%s replay=%s\n", rid, path)
		fmt.Printf("  signature: %s\n  detail: %s\n  (seen in %d runs; plan %d steps -> %d)\n", sig, detail, agg.violCount[sig], rf.OrigSteps, len(rf.Plan.Steps))
		reported = append(reported, sig)
		exit = 1
	}
	for i := range known.Findings {
		kf := &known.Findings[i]
		if hits := knownHits[kf]; len(hits) > 0 {
			fmt.Printf("KNOWN-FINDING: property=%s %s\n", rid, kf.What)
			for _, h := range hits {
				fmt.Printf("  seen as: %s\n", h)
			}
		}
	}
	wall := time.Since(start).Seconds()
	WriteEvidence(sc, tier, seed, agg, wall, len(reported))
	if len(agg.infra) > 0 {
		for _, s := range agg.infra {
			fmt.Fprintln(os.Stderr, "INFRA:", s)
		}
		if exit == 0 {
			exit = 2
		}
	}
	if agg.runs == 0 && exit == 0 {
		fmt.Fprintln(os.Stderr, "INFRA: no run produced a result")
		exit = 2
	}
	fmt.Printf("%s %s: runs=%d evaluations=%d distinct_nontrivial=%d fingerprints=%d violations=%d wall=%.1fs seed=%d\n",
		id, tier, agg.runs, agg.evals, len(agg.nontriv), len(agg.fps), len(reported), wall, seed)
	return exit
}

func tailStr(s string, n int) string {
	if len(s) > n {
		return "…" + s[len(s)-n:]
	}
	return s
}

func deathClass(s string) string {
	switch {
	case strings.Contains(s, "out of memory"), strings.Contains(s, "cannot allocate memory"):
		return "out-of-memory"
	case strings.Contains(s, "WATCHDOG"):
		return "hang"
	case strings.Contains(s, "timeout"):
		return "timeout"
	case strings.Contains(s, "concurrent map"):
		return "concurrent-map"
	case strings.Contains(s, "stack overflow"), strings.Contains(s, "goroutine stack exceeds"):
		return "stack-overflow"
	case strings.Contains(s, "fatal error"):
		return "fatal-error"
	}
	return "killed"
}

// Replay executes a replay file in a fresh process and reports whether the recorded
// signature fires again. Exit 1 + VIOLATION line if reproduced, 0 if not.
func (d *Driver) Replay(path string) int {
	data, err := os.ReadFile(path)
	if err != nil {
		fmt.Fprintln(os.Stderr, err)
		return 2
	}
	var rf ReplayFile
	if err := json.Unmarshal(data, &rf); err != nil || rf.Plan == nil {
		fmt.Fprintln(os.Stderr, "not a replay file:", err)
		return 2
	}
	sc := Lookup(rf.Plan.Prop)
	if sc == nil {
		fmt.Fprintln(os.Stderr, "unknown property", rf.Plan.Prop)
		return 2
	}
	attempts := 1
	if sc.Describe().Race {
		attempts = 5 // the race detector's report is sampled (DESIGN §2.5)
	}
	for i := 0; i < attempts; i++ {
		r, died, tail := d.execPlan(sc, rf.Plan, 10*time.Minute)
		if died && strings.Contains(rf.Signature, "/process-death") {
			fmt.Printf("VIOLATION property=%s replay=%s\n  reproduced: %s (process died: %s)\n", rf.Property, path, rf.Signature, deathClass(tail))
			return 1
		}
		if hasSig(r, rf.Signature) {
			for _, v := range r.Violations {
				if v.Sig == rf.Signature {
					fmt.Printf("VIOLATION property=%s replay=%s\n  reproduced: %s\n  detail: %s\n  fingerprint: %s\n", rf.Property, path, v.Sig, v.Detail, r.Fingerprint)
				}
			}
			return 1
		}
	}
	fmt.Printf("NOT-REPRODUCED property=%s signature=%s\n", rf.Property, rf.Signature)
	return 0
}
