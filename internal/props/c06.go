package props

import (
	"bytes"
	"crypto/elliptic"
	"fmt"
	"sort"
	"strings"

	"github.com/cloudflare/pat-go/tokens/type3"

	"verif/internal/core"
	"verif/internal/entropy"
	"verif/internal/ref"
	"verif/internal/simnet"
	"verif/internal/world"
)

// C06 — the attester accepts a rate-limited request only if it is authentic.
type c06 struct{ base }

func init() { core.Register(c06{base{"C06", "fault_enumeration", 150, 3000}}) }

func (c06) Describe() core.Description {
	return core.Description{
		Technique: "deterministic simulation with a byzantine client on the client->attester hop: every single-bit flip of an honest in-flight request enumerated, wrong/zero/>=N/one-bit-off blinds, foreign/off-curve/truncated client keys, swapped side information between two clients, re-signed and malleated requests; oracle = crypto/ecdsa + independent hash-to-field key-blinding reference; recording cache observes state creation",
		Rule: "one evaluation = one (request, blind, client key, anonymous origin) tuple delivered to RateLimitedAttester.VerifyRequest; per run 1 issuer, 2-3 clients, 2-3 honest sessions, an enumflip over every bit of one request (quick: stride 3 with rotating offset), the side-information family on a second session and 4-8 byzantine requests; " +
			"non-trivial = a tuple other than an untouched honest one reached VerifyRequest; distinct = distinct (class / field+bit) labels",
		Real:        []string{"type3.RateLimitedAttester.VerifyRequest", "type-3 request decoder", "type-3 client (honest requests)", "ecdsa.Verify, ecdsa.BlindPublicKeyWithContext"},
		Stub:        []string{"byzantine client (crypto/ecdsa + go-hpke)", "network", "entropy", "arena", "recording ClientStateCache"},
		Assumptions: []string{"blind keys are presented in their 48-byte encoding with a non-zero top byte, or as the listed hostile values; leading-zero encodings of an otherwise right blind are not generated (the statement does not fix the byte representation)", "(r, N-s) is a valid signature and must be accepted"},
	}
}

func (c c06) Generate(seed uint64, tier string, idx int) *core.Plan {
	r := core.NewRand(core.MixI(core.Mix(seed, "C06/"+tier), idx))
	p := &core.Plan{Prop: "C06", Seed: r.U64(), Tier: tier, Cfg: map[string]int64{}}
	p.Cfg["spare"] = int64(r.Pick([]int{0, 7, 64}))
	p.Cfg["segmode"] = int64(r.Pick([]int{0, 2}))
	p.Cfg["bufreuse"] = int64(r.Intn(2))
	p.Cfg["scramble"] = int64(r.Intn(256))
	p.Steps = append(p.Steps, core.Step{Op: "iss", A: []int64{3, int64(idx % 8)}})
	ncl := r.Range(2, 3)
	for i := 0; i < ncl; i++ {
		p.Steps = append(p.Steps, core.Step{Op: "client3", A: []int64{int64(r.Intn(1 << 20))}})
	}
	for i := 0; i < 2; i++ {
		p.Steps = append(p.Steps, core.Step{Op: "origin", A: []int64{0, int64(r.Pick([]int{5, 14, 33})), int64(r.Intn(1 << 20)), 1, int64(100 + i)}})
	}
	nsess := r.Range(2, 3)
	for i := 0; i < nsess; i++ {
		a := make([]int64, sAnon+1)
		a[sID], a[sType] = int64(i+1), 3
		a[sChKind], a[sChLen], a[sSeed] = int64(r.Intn(2)), int64(chLens[r.Intn(len(chLens))]), int64(r.Intn(1<<30))
		a[sClient], a[sOrigin], a[sAnon] = int64(i%ncl), int64(r.Intn(2)), -2
		a[sDelay] = int64(i) * 3_000_000
		p.Steps = append(p.Steps, core.Step{Op: "sess", A: a})
	}
	stride := int64(1)
	if tier == "quick" {
		stride = 3
	}
	switch idx % 3 {
	case 0, 1:
		p.Steps = append(p.Steps, core.Step{Op: "fault", S: []string{"enumflip"}, A: []int64{1, world.KAttReq, stride, int64(idx / 3 % 3)}})
	case 2:
		p.Steps = append(p.Steps, core.Step{Op: "fault", S: []string{"enumtrunc"}, A: []int64{1, world.KAttReq}})
	}
	p.Steps = append(p.Steps, core.Step{Op: "sidefam", A: []int64{2, 1, int64(r.Intn(1 << 30))}})
	nbyz := r.Range(4, 8)
	for i := 0; i < nbyz; i++ {
		cls := r.Pick([]int{bzResignOtherKey, bzSignOtherContents, bzSigAbsent, bzSigHalf, bzSigDoubled, bzReplacedRequestKey, bzHonestEquivalent, bzMalleatedSig, bzHonestEquivalent})
		p.Steps = append(p.Steps, core.Step{Op: "byz", A: []int64{int64(1000 + i), int64(cls), 0, int64(r.Intn(1 << 30)), int64(4+i) * 1_000_000}})
	}
	return p
}

// sideFamily builds the hostile variants of the side information (blind, client key) that
// accompanies request m, plus the swap with another session's side information.
func sideFamily(m *simnet.Msg, other [][]byte, seed int64) (out []*simnet.Msg) {
	r := core.NewRand(uint64(seed))
	blind, ckey, anon := m.Side[0], m.Side[1], m.Side[2]
	add := func(label string, b, k []byte) {
		c := *m
		c.ID = 0
		c.Side = [][]byte{b, k, anon}
		c.Faults = append(append([]string(nil), m.Faults...), label)
		c.Variant = len(out) + 1
		out = append(out, &c)
	}
	N := elliptic.P384().Params().N
	ob := r.Bytes(48)
	ob[0] = ob[0]&0x7f | 1
	add("blind-other", ob, ckey)
	for i := 0; i < 6; i++ {
		b := append([]byte(nil), blind...)
		bit := r.Intn(8 * len(b))
		b[bit/8] ^= 1 << uint(bit%8)
		add("blind-one-bit", b, ckey)
	}
	add("blind-zero", make([]byte, 48), ckey)
	add("blind-empty", nil, ckey)
	add("blind-N", N.FillBytes(make([]byte, 48)), ckey)
	bn := bigFromBytes(blind)
	bn.Add(bn, N)
	add("blind-plus-N", bn.Bytes(), ckey)
	add("blind-truncated", blind[:47], ckey)
	add("blind-prefixed-1", append([]byte{0x5a}, blind...), ckey)
	add("blind-prefixed-1", append([]byte{0x01}, blind...), ckey)
	add("blind-prefixed-2", append([]byte{0x80, 0x00}, blind...), ckey)
	add("blind-suffixed", append(append([]byte(nil), blind...), 0x00), ckey)
	// client key variants
	add("clientkey-base-point", blind, compressedBase([]byte{1}))
	add("clientkey-random-point", blind, compressedBase(ob))
	for i := 0; i < 4; i++ {
		k := append([]byte(nil), ckey...)
		bit := 8 + r.Intn(8*48)
		k[bit/8] ^= 1 << uint(bit%8)
		add("clientkey-one-bit", blind, k)
	}
	k := append([]byte(nil), ckey...)
	k[0] ^= 1 // the other square root: -P
	add("clientkey-negated", blind, k)
	add("clientkey-truncated", blind, ckey[:48])
	add("clientkey-empty", blind, nil)
	add("clientkey-bad-prefix", blind, append([]byte{0x04}, ckey[1:]...))
	if other != nil {
		add("side-swapped-with-other-client", other[0], other[1])
		add("blind-of-other-client", other[0], ckey)
		add("clientkey-of-other-client", blind, other[1])
	}
	return out
}

func (c c06) Execute(p *core.Plan) *core.Result {
	res := core.NewResult()
	w := BuildWorld(p, res, false)
	pa := world.NewPlanAdversary(w)
	sideFam := map[int]core.Step{}
	for _, st := range p.Steps {
		if st.Op == "sidefam" {
			sideFam[int(st.Arg(0, 0))] = st
			res.FaultPlanned("side-family")
		}
	}
	byzClass := map[int]int{}
	preSnaps := map[int]cacheSnap{}
	lastSide := map[int][][]byte{}
	w.Adversary = func(m *simnet.Msg) []world.Sending {
		out := pa.Intercept(m)
		if m.Kind != world.KAttReq {
			return out
		}
		lastSide[m.Sess] = m.Side
		if st, ok := sideFam[m.Sess]; ok {
			other := lastSide[int(st.Arg(1, 0))]
			res.FaultFired("side-family", true)
			for i, v := range sideFamily(m, other, st.Arg(2, 0)) {
				out = append(out, world.Sending{M: v, Delay: int64(i+1) * 10})
			}
			w.Sessions[m.Sess].Hostile = true
		}
		return out
	}
	ctx := ref.Type3Ctx("ClientBlind")
	w.Observers = append(w.Observers, func(o *world.Outcome) {
		if o.Op != "verify-request" {
			return
		}
		res.Evals++
		s := o.S
		m := o.Msg
		// independent verdict from the bytes on the wire
		want, why := false, ""
		rq, err := ref.ParseRLRequest(m.Payload)
		switch {
		case err != nil:
			why = "parse: " + err.Error()
		case !ref.VerifyP384Raw(rq.RequestKey, rq.SignedPart, rq.Signature):
			why = "signature does not verify under the request key"
		default:
			k, _ := ref.BlindFactor(elliptic.P384(), ref.MinimalBE(m.Side[0]), ctx)
			exp := ref.BlindCompressed(elliptic.P384(), m.Side[1], k)
			if exp == nil || len(m.Side[1]) != 49 {
				why = "client key does not decode"
			} else if !bytes.Equal(exp, rq.RequestKey) {
				why = "request key is not the client key blinded with the supplied blind"
			} else {
				want = true
			}
		}
		label := "honest"
		if cls, ok := byzClass[s.ID]; ok {
			label = bzName[cls]
		}
		changed := m.Orig != nil && !bytes.Equal(m.Orig, m.Payload)
		for _, l := range m.Faults {
			switch faultClass(l) {
			case "flip1":
				if changed {
					var bit int
					fmt.Sscanf(l, "flip1@%d", &bit)
					label = "flip1/" + reqField3(len(m.Orig), bit)
				}
			case "trunc":
				if changed {
					label = "trunc"
				}
			case "dup", "retransmit", "byz":
			default:
				if len(l) > 4 && l[:4] != "byz:" {
					label = l
				}
			}
		}
		if label != "honest" {
			res.Nontrivial(label)
		}
		cacheKey := fmt.Sprintf("%x", m.Side[1])
		now := snapCache(w, cacheKey)
		if o.Panic != nil {
			res.Probe("attester panicked on a hostile request (C03's business)")
			return
		}
		accepted := o.Err == nil
		if accepted && !want {
			res.Violate("C06/accepted-unauthentic/"+sigLabel(label), fmt.Sprintf("VerifyRequest accepted a request the reference refuses (%s); variant %s", why, label), -1)
		}
		if !accepted && want {
			res.Violate("C06/rejected-authentic/"+sigLabel(label), fmt.Sprintf("VerifyRequest refused an authentic request (variant %s): %v", label, o.Err), -1)
		}
		// cache effects, judged against the snapshot taken before the call
		if snap, ok := preSnaps[m.ID]; ok {
			if !want || !accepted {
				if now.puts != snap.puts {
					res.Violate("C06/rejected-request-created-state/"+sigLabel(label), fmt.Sprintf("a request that is refused (or must be) caused %d cache Put(s) (variant %s)", now.puts-snap.puts, label), -1)
				}
				if now.fp != snap.fp {
					res.Violate("C06/rejected-request-altered-state/"+sigLabel(label), fmt.Sprintf("a request that is refused (or must be) changed cached client state (variant %s)", label), -1)
				}
			} else {
				wantPuts := 1
				if snap.known {
					wantPuts = 0
				}
				if now.puts-snap.puts != wantPuts {
					res.Violate("C06/accept-bookkeeping/"+sigLabel(label), fmt.Sprintf("accepting a request of a %s client caused %d cache Put(s), want %d", map[bool]string{true: "known", false: "new"}[snap.known], now.puts-snap.puts, wantPuts), -1)
				}
				if !now.known {
					res.Violate("C06/accept-bookkeeping/"+sigLabel(label), "accepted client is not in the cache afterwards", -1)
				}
			}
			delete(preSnaps, m.ID)
		}
	})
	// snapshot the cache right before each attester delivery: wrap the net handler
	inner := w.Net.Handler
	w.Net.Handler = func(m *simnet.Msg) {
		if m.Kind == world.KAttReq && len(m.Side) == 3 {
			preSnaps[m.ID] = snapCache(w, fmt.Sprintf("%x", m.Side[1]))
		}
		inner(m)
	}
	StartAll(w)
	for _, st := range p.Steps {
		if st.Op != "byz" {
			continue
		}
		st := st
		sid, cls := int(st.Arg(0, 0)), int(st.Arg(1, 0))
		if len(w.I3) == 0 || len(w.I3[0].OriginOrder) == 0 {
			continue
		}
		origin := w.I3[0].OriginOrder[0]
		s := &world.Session{ID: sid, Type: 3, Iss: 0, Stop: true, Hostile: true}
		w.AddSession(s)
		byzClass[sid] = cls
		res.FaultPlanned("byz:" + bzName[cls])
		w.Net.After(st.Arg(4, 0), func() {
			w.Ent.Begin("byzclient", fmt.Sprintf("s%d/build", sid))
			wire, secret, blind, err := byzBuild6(w, cls, origin, st.Arg(3, 0))
			if err != nil {
				res.Infra = "byzantine builder: " + err.Error()
				return
			}
			res.FaultFired("byz:"+bzName[cls], true)
			anon := entropy.Block(p.Seed, 0, "byz", fmt.Sprintf("anon/%d", sid), 32, 0)
			w.Net.Send(&simnet.Msg{Sess: sid, Kind: world.KAttReq, From: "byzclient", To: "attester", Payload: wire,
				Side: [][]byte{blind, compressedBase(secret), anon}, Faults: []string{"byz:" + bzName[cls]}}, 0)
		})
	}
	if !w.Net.Run() {
		res.Infra = "step budget exhausted"
	}
	c.structFamily(w, res, lastSide)
	res.Sample = map[string]any{"faults": faultSteps(p), "verify_request_calls": res.Evals, "cache_puts": w.Cache.Puts, "clients_cached": len(w.Cache.M)}
	finish(w, res)
	return res
}

type cacheSnap struct {
	puts  int
	fp    string
	known bool
}

func snapCache(w *world.World, key string) cacheSnap {
	_, known := w.Cache.M[key]
	return cacheSnap{w.Cache.Puts, w.Cache.Fingerprint(), known}
}

// sigLabel drops the bit index from a field+bit label: signatures name the field only.
func sigLabel(l string) string {
	if i := strings.Index(l, "/bit"); i >= 0 {
		return l[:i]
	}
	return l
}

// byzBuild6 builds a byzantine request for the attester hop and returns the client secret and
// blind that go with it as side information.
func byzBuild6(w *world.World, cls int, origin string, seed int64) (wire, secret, blind []byte, err error) {
	r := core.NewRand(uint64(seed))
	secret = r.Bytes(48)
	secret[0] &= 0x7f
	blind = r.Bytes(48)
	blind[0] = blind[0]&0x7f | 1
	// byzBuild derives the same secret and blind from the same seed
	wire, err = byzBuild(w, cls, origin, seed)
	return wire, secret, blind, err
}

// structFamily: an attester front-end that decoded a request, encoded it once (to log or
// forward it) and then holds a request object whose fields differ from what was encoded —
// the request's "exact contents" are its fields. Each variant alters one signed field of the
// object after Marshal() was called; the reference verdict is computed from the fields.
func (c c06) structFamily(w *world.World, res *core.Result, sides map[int][][]byte) {
	var ids []int
	for id := range sides {
		ids = append(ids, id)
	}
	sort.Ints(ids)
	var prevCT []byte
	for _, id := range ids {
		s := w.Sessions[id]
		if s == nil || s.St3 == nil || len(sides[id]) != 3 {
			continue
		}
		side := sides[id]
		type tamper struct {
			label string
			apply func(r *type3.RateLimitedTokenRequest)
		}
		flip := func(b []byte, bit int) []byte {
			c := append([]byte(nil), b...)
			c[(bit/8)%len(c)] ^= 1 << uint(bit%8)
			return c
		}
		ts := []tamper{
			{"struct/none", func(r *type3.RateLimitedTokenRequest) {}},
			{"struct/name-key-id-bit", func(r *type3.RateLimitedTokenRequest) { r.NameKeyID = flip(r.NameKeyID, 5) }},
			{"struct/ciphertext-bit", func(r *type3.RateLimitedTokenRequest) { r.EncryptedTokenRequest = flip(r.EncryptedTokenRequest, 77) }},
			{"struct/ciphertext-truncated", func(r *type3.RateLimitedTokenRequest) {
				r.EncryptedTokenRequest = append([]byte(nil), r.EncryptedTokenRequest[:len(r.EncryptedTokenRequest)-1]...)
			}},
			{"struct/signature-bit", func(r *type3.RateLimitedTokenRequest) { r.Signature = flip(r.Signature, 300) }},
			{"struct/signature-truncated", func(r *type3.RateLimitedTokenRequest) { r.Signature = append([]byte(nil), r.Signature[:95]...) }},
			{"struct/none", func(r *type3.RateLimitedTokenRequest) {}}, // the genuine request right after a refused one
			{"struct/signature-extended", func(r *type3.RateLimitedTokenRequest) { r.Signature = append(append([]byte(nil), r.Signature...), 0) }},
			{"struct/signature-empty", func(r *type3.RateLimitedTokenRequest) { r.Signature = nil }},
			{"struct/none", func(r *type3.RateLimitedTokenRequest) {}},
		}
		if prevCT != nil {
			pc := prevCT
			ts = append(ts, tamper{"struct/ciphertext-of-other-request", func(r *type3.RateLimitedTokenRequest) { r.EncryptedTokenRequest = append([]byte(nil), pc...) }})
		}
		for ti, t := range ts {
			req := new(type3.RateLimitedTokenRequest)
			if !req.Unmarshal(append([]byte(nil), s.ReqBytes...)) {
				continue
			}
			req.Marshal() // encoded once (forwarded / logged)
			t.apply(req)
			// the request's exact contents, encoded by the harness from its fields
			wire := []byte{0, 3}
			wire = append(wire, req.RequestKey...)
			wire = append(wire, req.NameKeyID...)
			wire = append(wire, byte(len(req.EncryptedTokenRequest)>>8), byte(len(req.EncryptedTokenRequest)))
			wire = append(wire, req.EncryptedTokenRequest...)
			want := len(req.Signature) == 96 && ref.VerifyP384Raw(req.RequestKey, wire, req.Signature)
			fpBefore := w.Cache.Fingerprint()
			o := &world.Outcome{}
			var err error
			w.Ent.Begin("attester", fmt.Sprintf("struct/%d/%d", id, ti))
			w.Guard(o, func() { err = w.Attester.VerifyRequest(*req, side[0], side[1], side[2]) })
			res.Evals++
			res.Nontrivial(t.label)
			if o.Panic != nil {
				res.Probe("attester panicked on a tampered request object (C03's business)")
				continue
			}
			if err == nil && !want {
				res.Violate("C06/accepted-unauthentic/"+t.label, fmt.Sprintf("VerifyRequest accepted a request object whose contents (variant %s, altered after the object had been encoded once) do not carry a valid signature", t.label), -1)
			}
			if err != nil && want {
				res.Violate("C06/rejected-authentic/"+t.label, fmt.Sprintf("VerifyRequest refused an authentic request object (%s): %v", t.label, err), -1)
			}
			if err != nil && w.Cache.Fingerprint() != fpBefore {
				res.Violate("C06/rejected-request-altered-state/"+t.label, "a refused request object changed cached client state", -1)
			}
		}
		prevCT = s.St3.Request().EncryptedTokenRequest
	}
}
