package props

import (
	"bytes"
	"crypto"
	stded "crypto/ed25519"
	"crypto/sha512"
	"fmt"
	"math/big"

	"github.com/cloudflare/pat-go/ed25519"

	"verif/internal/arena"
	"verif/internal/core"
	"verif/internal/entropy"
	"verif/internal/ref"
)

// C14 — the Ed25519 fork is bit-compatible with standard Ed25519.
// C15 — Ed25519 key blinding yields ordinary, invertible, context-bound Ed25519 keys.
type c14 struct{ base }
type c15 struct{ base }

func init() {
	core.Register(c14{base{"C14", "fault_enumeration", 2000, 50000}})
	core.Register(c15{base{"C15", "exploration", 1600, 40000}})
}

func (c14) Describe() core.Description {
	return core.Description{
		Technique: "deterministic simulation of a key generator / signer -> channel -> verifier pipeline with crypto/ed25519 running beside every step as reference model: key generation of fork and stdlib under the same entropy fault plan (every read position x fault kind, nil reader), byte comparison of derived keys and signatures, channel corruption (every bit of signature and key for sampled cases) and malleation (S+L, S=L, high bits, non-canonical and small-order R and A, all-zero, all-ones, wrong lengths)",
		Rule: "one evaluation = one comparison with crypto/ed25519 (key bytes, signature bytes, error, bytes consumed, verdict); per run either the entropy-fault enumeration for GenerateKey, or one key pair with seeds/messages biased towards scalar edge values and 60-700 channel variants; " +
			"non-trivial = an entropy fault that fired, or a corrupted/malleated signature or key; distinct = distinct (variant class, verdict) and (fault kind, position, outcome)",
		Real:        []string{"ed25519.GenerateKey, NewKeyFromSeed, Sign, PrivateKey.Sign, Verify, PrivateKey.Public/Seed"},
		Stub:        []string{"entropy source with faults", "channel corrupter / malleator (math/big)", "crypto/ed25519 reference model", "arena"},
		Assumptions: []string{"rare carry patterns in the ref10 scalar code are reached only by chance (seeds/messages are biased, still sampling)", "public keys offered to Verify are 32 bytes (documented precondition)"},
	}
}

func (c15) Describe() core.Description {
	return core.Description{
		Technique: "deterministic simulation of a key holder -> blinder B1 -> blinder B2 -> signer -> channel -> verifier pipeline (delivery order and blind/context corruption by plan, poisoned entropy to show determinism) with an own math/big twisted-Edwards reference for the blinded key and crypto/ed25519.Verify as the unmodified verifier",
		Rule: "one evaluation = one law instance (blinded key = SHA-512(blind||0x00||ctx)[:32] mod L times A per the reference; deterministic signature, identical under a poisoned entropy source; verifies with crypto/ed25519 under the blinded key, not under the original; unblind(blind) = id; two blindings commute; one-bit change of blind or context changes the key); per run 8-24 pipelines, contexts 0..64 bytes, messages 0..200 bytes; " +
			"non-trivial = swapped blinder order or a corruption in transit or an empty context; distinct = distinct (context class, message class, order, corruption)",
		Real:        []string{"ed25519.BlindPublicKeyWithContext, UnblindPublicKeyWithContext, BlindPublicKey, UnblindPublicKey, BlindKeySignWithContext, BlindKeySign, Verify"},
		Stub:        []string{"blinder order / corrupter", "entropy (poisoned)", "arena", "math/big Edwards reference", "crypto/ed25519 verifier"},
		Assumptions: []string{"leverage is low: no protocol path uses this package; the reference decides, the simulator contributes order, corruption, buffer layout and the seeded workload"},
	}
}

func (c c14) Generate(seed uint64, tier string, idx int) *core.Plan {
	r := core.NewRand(core.MixI(core.Mix(seed, "C14/"+tier), idx))
	p := &core.Plan{Prop: "C14", Seed: r.U64(), Tier: tier, Cfg: map[string]int64{}}
	p.Cfg["spare"] = int64(r.Pick([]int{0, 7, 64}))
	p.Cfg["keyseed"] = int64(r.Intn(1 << 30))
	p.Cfg["msglen"] = int64(r.Pick([]int{0, 1, 31, 32, 33, 64, 111, 112, 127, 128, 129, 150, 191, 192, 193, 200, 255, 256, 257, 500}))
	switch idx % 4 {
	case 0:
		for k := 0; k < 2; k++ {
			for _, f := range [][2]int64{{1, 0}, {1, 1}, {1, 2}, {2, 0}, {2, 1}, {2, 17}, {2, 31}, {3, 1}, {3, -1}, {3, -2}, {3, 5}, {4, 1}, {4, 4}, {0, 0}, {9, 0}} {
				p.Steps = append(p.Steps, core.Step{Op: "gen", A: []int64{int64(k), f[0], f[1], int64(r.Intn(1 << 30))}})
			}
		}
	case 1:
		// every bit of the signature and of the key
		p.Steps = append(p.Steps, core.Step{Op: "flipall"})
	default:
		n := r.Range(60, 160)
		for i := 0; i < n; i++ {
			k := r.Intn(20)
			if k == 13 || k == 14 {
				k = 15 // the two big families run once per selected run, below
			}
			p.Steps = append(p.Steps, core.Step{Op: "var", A: []int64{int64(k), int64(r.Intn(1 << 30)), int64(r.Intn(256))}})
		}
		if idx%8 == 2 {
			p.Steps = append(p.Steps, core.Step{Op: "var", A: []int64{13, int64(r.Intn(1 << 30)), int64(r.Intn(256))}})
		}
		if idx%8 == 3 {
			p.Steps = append(p.Steps, core.Step{Op: "var", A: []int64{14, int64(r.Intn(1 << 30)), int64(r.Intn(256))}})
		}
	}
	return p
}

// the eight small-order points of edwards25519 (canonical encodings)
var smallOrder = []string{
	"0100000000000000000000000000000000000000000000000000000000000000",
	"ecffffffffffffffffffffffffffffffffffffffffffffffffffffffffffff7f",
	"0000000000000000000000000000000000000000000000000000000000000000",
	"0000000000000000000000000000000000000000000000000000000000000080",
	"26e8958fc2b227b045c3f489f2ef98f0d5dfac05d3c63339b13802886d53fc05",
	"26e8958fc2b227b045c3f489f2ef98f0d5dfac05d3c63339b13802886d53fc85",
	"c7176a703d4dd84fba3c0b760d10670f2a2053fa2c39ccc64ec7fd7792ac037a",
	"c7176a703d4dd84fba3c0b760d10670f2a2053fa2c39ccc64ec7fd7792ac03fa",
}

func leInt(b []byte) *big.Int {
	be := make([]byte, len(b))
	for i := range b {
		be[len(b)-1-i] = b[i]
	}
	return new(big.Int).SetBytes(be)
}

func intLE(v *big.Int, n int) []byte {
	be := v.FillBytes(make([]byte, n))
	for i, j := 0, n-1; i < j; i, j = i+1, j-1 {
		be[i], be[j] = be[j], be[i]
	}
	return be
}

func (c c14) Execute(p *core.Plan) *core.Result {
	res := core.NewResult()
	log := core.NewEventLog(false)
	ent := entropy.Global
	ent.Reset(p.Seed)
	spare := int(p.C("spare", 0))
	r := core.NewRand(uint64(p.C("keyseed", 1)))
	seed := r.Bytes(32)
	if r.Bool(20) {
		seed = make([]byte, 32) // degenerate seeds
		seed[0] = byte(r.Intn(3))
	}
	msg := r.Bytes(int(p.C("msglen", 32)))
	// reference-model agreement on derivation and signing
	fpriv := ed25519.NewKeyFromSeed(seed)
	spriv := stded.NewKeyFromSeed(seed)
	res.Evals++
	if !bytes.Equal(fpriv, spriv) {
		res.Violate("C14/key-derivation", "NewKeyFromSeed differs from crypto/ed25519", -1)
	}
	fsig := ed25519.Sign(fpriv, msg)
	ssig := stded.Sign(spriv, msg)
	res.Evals++
	if !bytes.Equal(fsig, ssig) {
		res.Violate("C14/signature-bytes", fmt.Sprintf("Sign differs from crypto/ed25519 on a %d-byte message", len(msg)), -1)
	}
	if s2, err := fpriv.Sign(nil, msg, cryptoHash0{}); err != nil || !bytes.Equal(s2, ssig) {
		res.Violate("C14/signer-interface", "PrivateKey.Sign differs from crypto/ed25519", -1)
	}
	if !bytes.Equal(fpriv.Seed(), seed) || !bytes.Equal(fpriv.Public().(ed25519.PublicKey), spriv.Public().(stded.PublicKey)) {
		res.Violate("C14/accessors", "Seed()/Public() differ from crypto/ed25519", -1)
	}
	pub := []byte(spriv.Public().(stded.PublicKey))
	verdict := func(label string, pk, m, sig []byte, si int) {
		res.Evals++
		ar := arena.New(arena.Layout{Spare: spare, Poison: 0xA5, Guard: 0x5C})
		vf := ed25519.Verify(ar.Put("pub", pk), ar.Put("msg", m), ar.Put("sig", sig))
		vs := stded.Verify(pk, m, sig)
		log.Add("v %s f=%v s=%v", label, vf, vs)
		res.State(fmt.Sprintf("%s/%v", label, vs))
		if label != "honest" {
			res.Nontrivial(fmt.Sprintf("%s/%v", label, vs))
		}
		if vf != vs {
			res.Violate("C14/verdict-differs/"+label, fmt.Sprintf("variant %s: fork says %v, crypto/ed25519 says %v (key %x.. sig %x..)", label, vf, vs, pk[:4], sig[:min(4, len(sig))]), si)
		}
		if d := ar.Audit(); len(d) > 0 {
			res.Probe("argument written during Verify (C16's business)")
		}
	}
	verdict("honest", pub, msg, ssig, -1)
	// the same key is also used for key blinding between verifications
	if bp, err := ed25519.BlindPublicKeyWithContext(pub, r.Bytes(32), nil); err == nil && len(bp) == 32 {
		ed25519.UnblindPublicKeyWithContext(pub, r.Bytes(32), []byte("ctx"))
		ed25519.BlindKeySign(fpriv, msg, r.Bytes(32))
		verdict("honest", pub, msg, ssig, -1)
	}
	S := leInt(ssig[32:])
	for si, st := range p.Steps {
		switch st.Op {
		case "gen":
			c.gen(res, log, ent, st, si)
		case "flipall":
			for bit := 0; bit < 512; bit++ {
				b := append([]byte(nil), ssig...)
				b[bit/8] ^= 1 << uint(bit%8)
				verdict("sig-flip1", pub, msg, b, si)
			}
			for bit := 0; bit < 256; bit++ {
				k := append([]byte(nil), pub...)
				k[bit/8] ^= 1 << uint(bit%8)
				verdict("key-flip1", k, msg, ssig, si)
			}
			res.FaultFired("FLIP1(every bit of signature and key)", true)
		case "var":
			x := core.NewRand(uint64(st.Arg(1, 0)))
			sig := append([]byte(nil), ssig...)
			switch st.Arg(0, 0) {
			case 0: // S + L
				copy(sig[32:], intLE(new(big.Int).Add(S, ref.EdL), 32))
				verdict("S+L", pub, msg, sig, si)
			case 1:
				copy(sig[32:], intLE(ref.EdL, 32))
				verdict("S=L", pub, msg, sig, si)
				copy(sig[32:], intLE(new(big.Int).Sub(ref.EdL, big.NewInt(1)), 32))
				verdict("S=L-1", pub, msg, sig, si)
				copy(sig[32:], make([]byte, 32))
				verdict("S=0", pub, msg, sig, si)
			case 2:
				sig[63] |= byte(0x20 << uint(x.Intn(3)))
				verdict("S-high-bits", pub, msg, sig, si)
			case 3: // small-order R with S = 0 and with the honest S
				for i, so := range smallOrder {
					copy(sig[:32], core.Unhex(so))
					verdict(fmt.Sprintf("R-small-order-%d", i), pub, msg, sig, si)
					z := append(append([]byte(nil), core.Unhex(so)...), make([]byte, 32)...)
					verdict(fmt.Sprintf("R-small-order-%d/S=0", i), pub, msg, z, si)
				}
			case 4: // small-order A
				for i, so := range smallOrder {
					a := core.Unhex(so)
					verdict(fmt.Sprintf("A-small-order-%d", i), a, msg, ssig, si)
					// with R = that point too and S = 0: the classic small-order forgery
					z := append(append([]byte(nil), a...), make([]byte, 32)...)
					verdict(fmt.Sprintf("A-small-order-%d/R=A,S=0", i), a, msg, z, si)
					for _, so2 := range smallOrder[:4] {
						z2 := append(append([]byte(nil), core.Unhex(so2)...), make([]byte, 32)...)
						verdict(fmt.Sprintf("A-small-order-%d/R-small,S=0", i), a, x.Bytes(5), z2, si)
					}
				}
			case 5: // non-canonical y (y >= p) as A and as R
				for _, d := range []int64{0, 1, 3, 4, 5, 9, 10, 14, 15, 16, 18} {
					y := new(big.Int).Add(new(big.Int).Sub(new(big.Int).Lsh(big.NewInt(1), 255), big.NewInt(19)), big.NewInt(d))
					enc := intLE(y, 32)
					for _, sign := range []byte{0, 0x80} {
						e2 := append([]byte(nil), enc...)
						e2[31] |= sign
						verdict("A-noncanonical-y", e2, msg, ssig, si)
						copy(sig[:32], e2)
						verdict("R-noncanonical-y", pub, msg, sig, si)
					}
				}
			case 6:
				verdict("sig-all-zero", pub, msg, make([]byte, 64), si)
				verdict("sig-all-ones", pub, msg, bytes.Repeat([]byte{0xff}, 64), si)
				verdict("key-all-zero", make([]byte, 32), msg, ssig, si)
				verdict("key-all-ones", bytes.Repeat([]byte{0xff}, 32), msg, ssig, si)
			case 7:
				verdict("sig-len-0", pub, msg, nil2(), si)
				verdict("sig-len-63", pub, msg, ssig[:63], si)
				verdict("sig-len-65", pub, msg, append(append([]byte(nil), ssig...), 0), si)
			case 8:
				m2 := append(append([]byte(nil), msg...), byte(st.Arg(2, 0)))
				verdict("msg-extended", pub, m2, ssig, si)
				if len(msg) > 0 {
					m3 := append([]byte(nil), msg...)
					m3[x.Intn(len(m3))] ^= 0x10
					verdict("msg-flip", pub, m3, ssig, si)
				}
			case 9: // x = 0 with sign bit set (y = 1 / y = -1)
				for _, so := range []string{"0100000000000000000000000000000000000000000000000000000000000080", "ecffffffffffffffffffffffffffffffffffffffffffffffffffffffffffffff"} {
					verdict("A-x0-signbit", core.Unhex(so), msg, ssig, si)
					copy(sig[:32], core.Unhex(so))
					verdict("R-x0-signbit", pub, msg, sig, si)
				}
			case 10: // another honest key/message pair (fresh seed biased to edge scalars)
				sd := x.Bytes(32)
				k2 := stded.NewKeyFromSeed(sd)
				m2 := x.Bytes(x.Intn(100))
				if !bytes.Equal(ed25519.NewKeyFromSeed(sd), k2) {
					res.Violate("C14/key-derivation", "NewKeyFromSeed differs from crypto/ed25519", si)
				}
				s2 := stded.Sign(k2, m2)
				if !bytes.Equal(ed25519.Sign(ed25519.PrivateKey(k2), m2), s2) {
					res.Violate("C14/signature-bytes", "Sign differs from crypto/ed25519", si)
				}
				verdict("honest", k2[32:], m2, s2, si)
				verdict("other-key", pub, m2, s2, si)
			case 13: // small-order A x (canonical and non-canonical) small-order R x S = 0, several messages
				encs := smallOrderEncodings()
				for _, a := range encs {
					for _, rr := range encs {
						for mi := 0; mi < 3; mi++ {
							z := append(append([]byte(nil), rr...), make([]byte, 32)...)
							verdict("small-order-A-R-pairs/S=0", a, []byte{byte(mi), byte(st.Arg(2, 0))}, z, si)
						}
					}
				}
			case 14: // tiny S: A = identity, R = [s]B, S = s is valid; S = s + L must be refused
				ident := core.Unhex(smallOrder[0])
				// canonical S at the top of the range: 2^252 .. L-1 (valid; the top byte has bit 4 set)
				for _, bigS := range []*big.Int{new(big.Int).Lsh(big.NewInt(1), 252), new(big.Int).Add(new(big.Int).Lsh(big.NewInt(1), 252), big.NewInt(5)), new(big.Int).Sub(ref.EdL, big.NewInt(1)), new(big.Int).Sub(ref.EdL, big.NewInt(2))} {
					R := ref.EdScalarMult(bigS, ref.EdBase()).Encode()
					verdict("large-canonical-S", ident, msg, append(append([]byte(nil), R...), intLE(bigS, 32)...), si)
				}
				for sv := int64(0); sv < 40; sv++ {
					R := ref.EdScalarMult(big.NewInt(sv), ref.EdBase()).Encode()
					okSig := append(append([]byte(nil), R...), intLE(big.NewInt(sv), 32)...)
					verdict("tiny-S/canonical", ident, msg, okSig, si)
					bad := append(append([]byte(nil), R...), intLE(new(big.Int).Add(big.NewInt(sv), ref.EdL), 32)...)
					verdict("tiny-S/S+L", ident, msg, bad, si)
				}
			case 11: // R replaced by a random valid point encoding / random bytes
				copy(sig[:32], x.Bytes(32))
				verdict("R-random", pub, msg, sig, si)
			case 12:
				verdict("key-random", x.Bytes(32), msg, ssig, si)
			default: // single random bit flips
				b := append([]byte(nil), ssig...)
				bit := x.Intn(512)
				b[bit/8] ^= 1 << uint(bit%8)
				verdict("sig-flip1", pub, msg, b, si)
				k := append([]byte(nil), pub...)
				bit = x.Intn(256)
				k[bit/8] ^= 1 << uint(bit%8)
				verdict("key-flip1", k, msg, ssig, si)
			}
		}
	}
	res.Fingerprint = log.Hash()
	res.Sample = map[string]any{"message_len": len(msg), "steps": len(p.Steps), "first": firstStep(p)}
	return res
}

func firstStep(p *core.Plan) any {
	if len(p.Steps) == 0 {
		return nil
	}
	return p.Steps[0]
}

type cryptoHash0 struct{}

func (cryptoHash0) HashFunc() crypto.Hash { return 0 }

// gen: GenerateKey of fork and stdlib under the same entropy and the same fault plan.
func (c c14) gen(res *core.Result, log *core.EventLog, ent *entropy.Source, st core.Step, si int) {
	k := int(st.Arg(0, 0))
	kind := st.Arg(1, 0)
	label := fmt.Sprintf("gen/%d", si)
	type outc struct {
		pub, priv []byte
		err       error
		reads     int
		fired     int
	}
	run := func(fork bool) outc {
		ent.Begin("keygen", label)
		if kind >= 1 && kind <= 4 {
			ent.SetFault(mkFault(kind, st.Arg(2, 0), k))
		}
		rd := entropy.Reader()
		if kind == 9 {
			rd = nil // nil reader: both fall back to crypto/rand.Reader, i.e. the simulated stream
		}
		var o outc
		if fork {
			pb, pv, err := ed25519.GenerateKey(rd)
			o.pub, o.priv, o.err = pb, pv, err
		} else {
			pb, pv, err := stded.GenerateKey(rd)
			o.pub, o.priv, o.err = pb, pv, err
		}
		o.reads, o.fired = ent.Reads, ent.Fired
		return o
	}
	f, s := run(true), run(false)
	res.Evals++
	fname := map[int64]string{0: "none", 1: "E-ERR", 2: "E-PARTIAL", 3: "E-SHORT", 4: "E-STALL", 9: "nil-reader"}[kind]
	res.FaultPlanned(fname)
	if f.fired > 0 || kind == 9 {
		res.FaultFired(fname, true)
		res.Nontrivial(fmt.Sprintf("gen/%s/%d@%d/%v", fname, st.Arg(2, 0), k, s.err != nil))
	}
	log.Add("gen %s k=%d err=%v/%v reads=%d/%d", fname, k, f.err != nil, s.err != nil, f.reads, s.reads)
	if (f.err == nil) != (s.err == nil) || (f.err != nil && f.err.Error() != s.err.Error()) {
		res.Violate("C14/keygen-error-differs/"+fname, fmt.Sprintf("GenerateKey under %s at read %d: fork error %v, crypto/ed25519 error %v", fname, k, f.err, s.err), si)
		return
	}
	if !bytes.Equal(f.pub, s.pub) || !bytes.Equal(f.priv, s.priv) {
		res.Violate("C14/keygen-keys-differ/"+fname, fmt.Sprintf("GenerateKey under %s: keys differ from crypto/ed25519 with the same entropy", fname), si)
	}
	if f.reads != s.reads {
		res.Violate("C14/keygen-consumption-differs/"+fname, fmt.Sprintf("GenerateKey under %s: fork made %d entropy reads, crypto/ed25519 %d", fname, f.reads, s.reads), si)
	}
	if f.err != nil && (f.pub != nil || f.priv != nil) {
		res.Violate("C14/keygen-output-with-error/"+fname, "GenerateKey returned a key together with an error", si)
	}
}

// ---------------------------------------------------------------------------------------

func (c c15) Generate(seed uint64, tier string, idx int) *core.Plan {
	r := core.NewRand(core.MixI(core.Mix(seed, "C15/"+tier), idx))
	p := &core.Plan{Prop: "C15", Seed: r.U64(), Tier: tier, Cfg: map[string]int64{}}
	p.Cfg["spare"] = int64(r.Pick([]int{0, 7, 64}))
	n := r.Range(8, 24)
	for i := 0; i < n; i++ {
		p.Steps = append(p.Steps, core.Step{Op: "pipe", A: []int64{
			int64(r.Intn(1 << 30)),
			int64(r.Pick([]int{0, 0, 1, 13, 32, 64, 94, 95, 96, 97, 111, 112, 127, 128, 129, 200, 300, 1000})), // context length
			int64(r.Pick([]int{0, 1, 32, 100, 111, 112, 127, 128, 129, 150, 191, 192, 193, 200, 256, 500})),    // message length
			int64(r.Intn(2)), // blinder order
			int64(r.Intn(4)), // corruption: 0 none, 1 blind bit, 2 context bit, 3 context extended
			int64(r.Intn(1 << 20)),
			int64(r.Intn(4)), // blind class: 0 random, 1 all zero, 2 all ones, 3 small
		}})
	}
	return p
}

func (c c15) Execute(p *core.Plan) *core.Result {
	res := core.NewResult()
	log := core.NewEventLog(false)
	ent := entropy.Global
	ent.Reset(p.Seed)
	spare := int(p.C("spare", 0))
	// one arena for the whole run in pool mode: the buffers of one pipeline are scrambled and
	// reused, at the same addresses, by the next (REUSE fault)
	pool := arena.New(arena.Layout{Spare: spare, Poison: 0xA5, Guard: 0x5C})
	pool.Pool, pool.Scramble = p.C("bufreuse", 1) == 1, 0xEE
	for si, st := range p.Steps {
		if st.Op != "pipe" {
			continue
		}
		r := core.NewRand(uint64(st.Arg(0, 0)))
		ar := pool
		seed := r.Bytes(32)
		priv := ed25519.NewKeyFromSeed(seed)
		pub := ar.Put("pub", priv[32:])
		blind := r.Bytes(32)
		switch st.Arg(6, 0) {
		case 1:
			blind = make([]byte, 32)
		case 2:
			blind = bytes.Repeat([]byte{0xff}, 32)
		case 3:
			blind = make([]byte, 32)
			blind[0] = byte(1 + r.Intn(255))
		}
		blind1 := ar.Put("blind1", blind)
		blind2 := ar.Put("blind2", r.Bytes(32))
		ctx := ar.Put("context", r.Bytes(int(st.Arg(1, 0))))
		var adjacent []byte
		if st.Arg(5, 0)%3 == 0 && len(ctx) > 0 {
			// the caller keeps blind and context next to each other in one buffer
			adjacent = append(append([]byte(nil), blind...), ctx...)
			blind1, ctx = adjacent[:32], adjacent[32:]
		}
		ctxSnap := append([]byte(nil), ctx...)
		msg := ar.Put("message", r.Bytes(int(st.Arg(2, 0))))
		key := fmt.Sprintf("c%d/m%d/o%d/x%d/b%d", len(ctx), len(msg), st.Arg(3, 0), st.Arg(4, 0), st.Arg(6, 0))
		res.State(key)
		if st.Arg(3, 0) == 1 || st.Arg(4, 0) != 0 || len(ctx) == 0 {
			res.Nontrivial(key)
		}
		viol := func(sig, detail string) {
			res.Violate("C15/"+sig, fmt.Sprintf("context %d bytes, message %d bytes, blind class %d: %s", len(ctx), len(msg), st.Arg(6, 0), detail), si)
		}
		// the surrounding application also verifies ordinary signatures under the original key,
		// before and after the blinding calls, and sometimes meets a key that is not on the curve
		honestSig := stded.Sign(stded.NewKeyFromSeed(seed), msg)
		if !ed25519.Verify(pub, msg, honestSig) {
			viol("verify-before-blinding", "an ordinary signature does not verify under the original key before the blinding calls")
		}
		if st.Arg(5, 0)%4 == 1 {
			bad := bytes.Repeat([]byte{0xff}, 32)
			bad[0], bad[31] = 0x02, 0x7f // y = 2 + 2^8*... : not a curve point for most draws; error expected, nothing else
			_, e1 := ed25519.BlindPublicKeyWithContext(bad, blind1, ctx)
			_, e2 := ed25519.UnblindPublicKeyWithContext(bad, blind1, ctx)
			if e1 != nil || e2 != nil {
				res.Probe("a blinding call refused a key that is not on the curve, then the pipeline continued")
			}
		}
		bp, err := ed25519.BlindPublicKeyWithContext(pub, blind1, ctx)
		if err != nil {
			viol("blind-error", err.Error())
			continue
		}
		res.Evals++
		want, ok := ref.EdBlindPublicKey(pub, blind1, ctx)
		if !ok || !bytes.Equal(bp, want) {
			viol("derivation", "blinded public key is not SHA-512(blind||0x00||context)[0:32] mod L times the public key, as computed by the math/big reference")
		}
		if len(ctx) == 0 {
			b0, err0 := ed25519.BlindPublicKey(pub, blind1)
			if err0 != nil || !bytes.Equal(b0, bp) {
				viol("helper-mismatch", "BlindPublicKey differs from BlindPublicKeyWithContext with an empty context")
			}
		}
		// inverse
		res.Evals++
		back, err := ed25519.UnblindPublicKeyWithContext(bp, blind1, ctx)
		if err != nil || !bytes.Equal(back, pub) {
			viol("not-inverse", "unblinding the blinded key does not return the original key")
		}
		// commutativity
		res.Evals++
		b12, e1 := ed25519.BlindPublicKeyWithContext(bp, blind2, ctx)
		b2, e2 := ed25519.BlindPublicKeyWithContext(pub, blind2, ctx)
		var b21 ed25519.PublicKey
		var e3 error
		if e2 == nil {
			b21, e3 = ed25519.BlindPublicKeyWithContext(b2, blind1, ctx)
		}
		if e1 != nil || e2 != nil || e3 != nil || !bytes.Equal(b12, b21) {
			viol("not-commutative", "two blindings give different keys in the two orders")
		}
		if st.Arg(3, 0) == 1 {
			res.FaultFired("REORDER(blinders)", true)
		}
		// deterministic signature, also under a poisoned entropy source
		res.Evals++
		privA := ed25519.PrivateKey(ar.Put("priv", priv))
		ent.Begin("signer", fmt.Sprintf("pipe/%d", si))
		sig1 := ed25519.BlindKeySignWithContext(privA, msg, blind1, ctx)
		ent.Begin("signer", fmt.Sprintf("pipe/%d/poison", si))
		ent.SetFault(entropy.Fault{Kind: entropy.Poison})
		sig2 := ed25519.BlindKeySignWithContext(privA, msg, blind1, ctx)
		res.FaultFired("E-POISON", true)
		if ent.Fired > 0 {
			viol("sign-reads-entropy", "BlindKeySignWithContext read the entropy source")
		}
		ent.SetFault(entropy.Fault{})
		if !bytes.Equal(sig1, sig2) {
			viol("sign-not-deterministic", "BlindKeySignWithContext gives different signatures on two calls")
		}
		if len(ctx) == 0 {
			if s0 := ed25519.BlindKeySign(privA, msg, blind1); !bytes.Equal(s0, sig1) {
				viol("helper-mismatch", "BlindKeySign differs from BlindKeySignWithContext with an empty context")
			}
		}
		res.Evals++
		if !stded.Verify(stded.PublicKey(want), msg, sig1) {
			viol("sig-rejected-by-stdlib", "the blinded-key signature does not verify with crypto/ed25519 under the reference-blinded public key")
		}
		if !ed25519.Verify(bp, msg, sig1) {
			viol("sig-rejected-by-fork", "the blinded-key signature does not verify with this package's verifier under the blinded key")
		}
		if stded.Verify(stded.PublicKey(append([]byte(nil), pub...)), msg, sig1) {
			viol("sig-accepted-under-original-key", "the blinded-key signature verifies under the original key")
		}
		if !ed25519.Verify(pub, msg, honestSig) || !stded.Verify(stded.PublicKey(append([]byte(nil), pub...)), msg, honestSig) {
			viol("verify-after-blinding", "an ordinary signature no longer verifies under the original key after blinding calls on that key")
		}
		// corruption in transit
		res.Evals++
		switch st.Arg(4, 0) {
		case 1:
			cb := append([]byte(nil), blind1...)
			bit := int(st.Arg(5, 0)) % 256
			cb[bit/8] ^= 1 << uint(bit%8)
			pc, err := ed25519.BlindPublicKeyWithContext(pub, cb, ctx)
			res.FaultFired("FLIP1(blind)", true)
			if err == nil && bytes.Equal(pc, bp) {
				viol("blind-not-bound", "changing one bit of the blind leaves the blinded key unchanged")
			}
		case 2:
			if len(ctx) > 0 {
				cc := append([]byte(nil), ctx...)
				bit := int(st.Arg(5, 0)) % (8 * len(cc))
				cc[bit/8] ^= 1 << uint(bit%8)
				pc, err := ed25519.BlindPublicKeyWithContext(pub, blind1, cc)
				res.FaultFired("FLIP1(context)", true)
				if err == nil && bytes.Equal(pc, bp) {
					viol("context-not-bound", "changing one bit of the context leaves the blinded key unchanged")
				}
			}
		case 3:
			cc := append(append([]byte(nil), ctx...), byte(st.Arg(5, 0)))
			pc, err := ed25519.BlindPublicKeyWithContext(pub, blind1, cc)
			res.FaultFired("EXTEND(context)", true)
			if err == nil && bytes.Equal(pc, bp) {
				viol("context-not-bound", "appending a byte to the context leaves the blinded key unchanged")
			}
		}
		for _, d := range ar.Audit() {
			res.Probe("argument written during a blinding call (C16's business): " + d)
		}
		if adjacent != nil && !bytes.Equal(ctx, ctxSnap) {
			res.Probe("context next to the blind was overwritten (C16's business; the laws above were judged with it)")
		}
		ar.Release()
		log.Add("pipe %d %s bp=%s sig=%s", si, key, core.H(bp), core.H(sig1))
	}
	res.Fingerprint = log.Hash()
	res.Sample = map[string]any{"pipelines": len(p.Steps), "first": firstStep(p)}
	_ = sha512.Size
	return res
}

// smallOrderEncodings: the eight canonical encodings plus the non-canonical encodings of the
// small-order points that have them (y = 0 or 1 re-encoded as y + p, with either sign bit; x = 0
// points with the sign bit set).
func smallOrderEncodings() [][]byte {
	var out [][]byte
	for _, so := range smallOrder {
		out = append(out, core.Unhex(so))
	}
	p255 := new(big.Int).Sub(new(big.Int).Lsh(big.NewInt(1), 255), big.NewInt(19))
	for _, y := range []int64{0, 1} {
		for _, sign := range []byte{0, 0x80} {
			e := intLE(new(big.Int).Add(p255, big.NewInt(y)), 32)
			e[31] |= sign
			out = append(out, e)
		}
	}
	for _, so := range []string{"0100000000000000000000000000000000000000000000000000000000000080", "ecffffffffffffffffffffffffffffffffffffffffffffffffffffffffffffff"} {
		out = append(out, core.Unhex(so))
	}
	return out
}
