package ref

import (
	stdecdsa "crypto/ecdsa"
	"crypto/elliptic"
	"crypto/sha256"
	"crypto/sha512"
	"io"
	"math/big"

	hpke "github.com/cisco/go-hpke"
)

// ByzRequest describes a rate-limited token request assembled by the byzantine client from
// independent primitives (crypto/ecdsa, go-hpke) — not with pat-go's client. Every field can
// be set inconsistently on purpose.
type ByzRequest struct {
	ClientSecret  []byte // P-384 scalar
	Blind         []byte // blind key bytes
	SignerSecret  []byte // if set: sign with this (unblinded) scalar instead of client*blind
	RequestKey    []byte // if set: put this request key on the wire instead of the derived one
	EncapKey      []byte // EncapKey encoding the inner request is sealed to
	AADEncapKey   []byte // if set: EncapKey encoding used for key id / aad instead of EncapKey
	AADRequestKey []byte // if set: request key bound in the aad instead of the one on the wire
	NameKeyID     []byte // if set: name key id on the wire
	TokenKeyID    byte
	BlindedMsg    []byte // 256 bytes
	PaddedOrigin  []byte // already padded origin name (any bytes)
	InnerRaw      []byte // if set: plaintext sealed instead of the well-formed inner request
	SigMode       int    // 0 normal, 1 absent, 2 half, 3 doubled, 4 (r, N-s), 5 sign other contents
	Rand          io.Reader
}

func PadOrigin(name string) []byte {
	n := len(name)
	blocks := (n + 31) / 32
	if blocks == 0 {
		blocks = 1
	}
	out := make([]byte, blocks*32)
	copy(out, name)
	return out
}

// Build returns the wire bytes, the request key on the wire and the HPKE context's enc.
func (q *ByzRequest) Build() (wire, requestKey []byte, err error) {
	c := elliptic.P384()
	N := c.Params().N
	d := new(big.Int).SetBytes(q.ClientSecret)
	k, _ := BlindFactor(c, MinimalBE(q.Blind), Type3Ctx("ClientBlind"))
	px, py := c.ScalarBaseMult(q.ClientSecret)
	bx, by := c.ScalarMult(px, py, k.Bytes())
	derived := elliptic.MarshalCompressed(c, bx, by)
	requestKey = derived
	if q.RequestKey != nil {
		requestKey = q.RequestKey
	}
	signD := new(big.Int).Mul(d, k)
	signD.Mod(signD, N)
	if q.SignerSecret != nil {
		signD = new(big.Int).SetBytes(q.SignerSecret)
	}
	encap := q.EncapKey
	id, kem, kdf, aead, pkb, ok := EncapKeyParts(encap)
	if !ok {
		return nil, nil, io.ErrUnexpectedEOF
	}
	suite, err := hpke.AssembleCipherSuite(hpke.KEMID(kem), hpke.KDFID(kdf), hpke.AEADID(aead))
	if err != nil {
		return nil, nil, err
	}
	pk, err := suite.KEM.DeserializePublicKey(pkb)
	if err != nil {
		return nil, nil, err
	}
	aadKey := encap
	if q.AADEncapKey != nil {
		aadKey = q.AADEncapKey
	}
	kid := sha256.Sum256(aadKey)
	aadReqKey := requestKey
	if q.AADRequestKey != nil {
		aadReqKey = q.AADRequestKey
	}
	aad := []byte{id, byte(kem >> 8), byte(kem), byte(kdf >> 8), byte(kdf), byte(aead >> 8), byte(aead), 0x00, 0x03}
	aad = append(aad, aadReqKey...)
	aad = append(aad, kid[:]...)
	inner := q.InnerRaw
	if inner == nil {
		inner = append([]byte{q.TokenKeyID}, q.BlindedMsg...)
		inner = append(inner, byte(len(q.PaddedOrigin)>>8), byte(len(q.PaddedOrigin)))
		inner = append(inner, q.PaddedOrigin...)
	}
	enc, ctx, err := hpke.SetupBaseS(suite, q.Rand, pk, []byte("TokenRequest"))
	if err != nil {
		return nil, nil, err
	}
	ct := ctx.Seal(aad, inner)
	body := append(append([]byte{}, enc...), ct...)
	nameKeyID := kid[:]
	if q.NameKeyID != nil {
		nameKeyID = q.NameKeyID
	}
	msg := []byte{0x00, 0x03}
	msg = append(msg, requestKey...)
	msg = append(msg, nameKeyID...)
	msg = append(msg, byte(len(body)>>8), byte(len(body)))
	msg = append(msg, body...)
	signed := msg
	if q.SigMode == 5 {
		signed = append(append([]byte{}, msg...), 0x01)
	}
	dg := sha512.Sum384(signed)
	sx, sy := c.ScalarBaseMult(signD.Bytes())
	priv := &stdecdsa.PrivateKey{PublicKey: stdecdsa.PublicKey{Curve: c, X: sx, Y: sy}, D: signD}
	r, s, err := stdecdsa.Sign(q.Rand, priv, dg[:])
	if err != nil {
		return nil, nil, err
	}
	if q.SigMode == 4 {
		s = new(big.Int).Sub(N, s)
	}
	sig := make([]byte, 96)
	r.FillBytes(sig[:48])
	s.FillBytes(sig[48:])
	switch q.SigMode {
	case 1:
		sig = nil
	case 2:
		sig = sig[:48]
	case 3:
		sig = append(sig, sig...)
	}
	return append(msg, sig...), requestKey, nil
}

// SignP384Raw signs SHA-384(msg) with the scalar secret using crypto/ecdsa and returns the
// fixed-width r||s.
func SignP384Raw(secret, msg []byte, rnd io.Reader) ([]byte, error) {
	c := elliptic.P384()
	d := new(big.Int).SetBytes(secret)
	x, y := c.ScalarBaseMult(secret)
	dg := sha512.Sum384(msg)
	r, s, err := stdecdsa.Sign(rnd, &stdecdsa.PrivateKey{PublicKey: stdecdsa.PublicKey{Curve: c, X: x, Y: y}, D: d}, dg[:])
	if err != nil {
		return nil, err
	}
	sig := make([]byte, 96)
	r.FillBytes(sig[:48])
	s.FillBytes(sig[48:])
	return sig, nil
}
