//go:build !verifyield

package conc

const Instrumented = false

func InstallYieldHook() {}
