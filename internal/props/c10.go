package props

import (
	"bytes"
	"fmt"

	"verif/internal/core"
	"verif/internal/simnet"
	"verif/internal/world"
)

// C10 — issuer-side token verification accepts exactly the tokens it issued.
type c10 struct{ base }

func init() { core.Register(c10{base{"C10", "fault_enumeration", 256, 6000}}) }

func (c10) Describe() core.Description {
	return core.Description{
		Technique: "deterministic simulation of the redemption hop with a hostile client/network: every single-bit flip of honestly issued tokens enumerated, misrouting to another issuer key and to the other token type, re-split and resized fields; provenance oracle (set of pairs honestly issued under that key in this run)",
		Rule: "one evaluation = one token presented to a type-1 or type-5 issuer's Verify; per run: 2 issuers per type, 2-4 honest issuance sessions, then on the redemption hop enumflip over all token bits (1168 / 1296), misroute to the other issuer, and the structure-aware family (cross-type, re-split at other boundaries, shortened/extended/empty fields); " +
			"non-trivial = a token variant other than the honest one reached Verify; distinct = distinct (type, variant label)",
		Real:        []string{"type1/type5 Issuer.Verify", "token decoders", "tokens.Token.AuthenticatorInput", "full issuance path (to obtain honest tokens)"},
		Stub:        []string{"hostile redemption hop", "entropy", "arena", "origin"},
		Assumptions: []string{"provenance: the only valid (input, authenticator) pairs under a key are those produced by honest blind issuance in this run (VOPRF unpredictability)"},
	}
}

func (c c10) Generate(seed uint64, tier string, idx int) *core.Plan {
	r := core.NewRand(core.MixI(core.Mix(seed, "C10/"+tier), idx))
	p := &core.Plan{Prop: "C10", Seed: r.U64(), Tier: tier, Cfg: map[string]int64{}}
	p.Cfg["spare"] = int64(r.Pick([]int{0, 7, 64}))
	p.Cfg["segmode"] = int64(r.Pick([]int{0, 2, 3}))
	for _, t := range []int64{1, 5} {
		base := int64(r.Intn(1 << 20))
		for i := 0; i < 2; i++ {
			p.Steps = append(p.Steps, core.Step{Op: "iss", A: []int64{t, 2*base + int64(i)}}) // distinct keys by construction
		}
	}
	nsess := r.Range(2, 4)
	for i := 0; i < nsess; i++ {
		a := make([]int64, sAnon+1)
		t := []int64{1, 5}[(idx+i)%2]
		a[sID], a[sType], a[sIss] = int64(i+1), t, int64(r.Intn(2))
		a[sChKind], a[sChLen], a[sSeed] = int64(r.Intn(2)), int64(chLens[r.Intn(len(chLens))]), int64(r.Intn(1<<30))
		a[sBatch] = int64(r.Range(1, 3))
		p.Steps = append(p.Steps, core.Step{Op: "sess", A: a})
	}
	// session 1: enumerate all bit flips of its (first) token; session 2: misroute + structure family
	p.Steps = append(p.Steps, core.Step{Op: "fault", S: []string{"enumflip"}, A: []int64{1, world.KTok, 1, 0}})
	p.Steps = append(p.Steps, core.Step{Op: "fault", S: []string{"misroute"}, A: []int64{2, world.KTok, 1 - p.Steps[5].A[sIss]}})
	p.Steps = append(p.Steps, core.Step{Op: "parts", A: []int64{int64(r.Range(1, nsess))}})
	return p
}

type prov struct {
	typ, iss    int
	input, auth string
}

func (c c10) Execute(p *core.Plan) *core.Result {
	res := core.NewResult()
	w := BuildWorld(p, res, false)
	world.NewPlanAdversary(w)
	issued := map[prov]bool{}
	partsFor := map[int]bool{}
	for _, st := range p.Steps {
		if st.Op == "parts" {
			partsFor[int(st.Arg(0, 0))] = true
		}
	}
	judge := func(o *world.Outcome, typ, iss int, input, auth []byte, label string) {
		res.Evals++
		want := issued[prov{typ, iss, string(input), string(auth)}]
		if label != "honest" {
			res.Nontrivial(fmt.Sprintf("t%d/%s", typ, label))
		}
		if o.Panic != nil {
			res.Probe("verify panicked (C03's business)")
			return
		}
		if o.OK && !want {
			res.Violate(fmt.Sprintf("C10/type%d/accepted-unissued/%s", typ, faultClass(label)), fmt.Sprintf("Verify accepted a token never issued under this key (variant %s)", label), -1)
		}
		if !o.OK && want {
			res.Violate(fmt.Sprintf("C10/type%d/rejected-issued/%s", typ, faultClass(label)), fmt.Sprintf("Verify rejected an honestly issued token (variant %s): %v", label, o.Err), -1)
		}
	}
	w.Observers = append(w.Observers, func(o *world.Outcome) {
		s := o.S
		switch o.Op {
		case "finalize":
			if o.Err != nil {
				return
			}
			for _, t := range o.Tokens {
				in := ExpectedTokenInput(s.Type, t.Nonce, s.Challenge, hostKeyID(w, s))
				issued[prov{s.Type, s.Iss, string(in), string(t.Authenticator)}] = true
			}
			if partsFor[s.ID] && s.Finals == 1 {
				c.sendParts(w, s)
			}
		case "redeem":
			idx := s.Iss
			if v, ok := o.Msg.Meta.(int); ok {
				idx = v
			}
			// independent split of the bytes on the wire
			n := 2 + 96
			al := AuthLen[s.Type]
			label := "honest"
			if len(o.Msg.Faults) > 0 {
				label = o.Msg.Faults[len(o.Msg.Faults)-1]
			}
			if len(o.In) < n+al {
				if o.OK {
					res.Violate(fmt.Sprintf("C10/type%d/accepted-short", s.Type), "a truncated token was accepted", -1)
				}
				return
			}
			judge(o, s.Type, idx, o.In[:n], o.In[n:n+al], label)
		case "redeem-parts":
			vt, idx := int(o.Msg.Payload[0]), int(o.Msg.Payload[1])
			in := []byte{byte(o.Msg.Tag >> 8), byte(o.Msg.Tag)}
			in = append(in, o.Msg.Side[0]...)
			in = append(in, o.Msg.Side[1]...)
			in = append(in, o.Msg.Side[2]...)
			judge(o, vt, idx, in, o.Msg.Side[3], o.Msg.Meta.(string))
		}
	})
	StartAll(w)
	if !w.Net.Run() {
		res.Infra = "step budget exhausted"
	}
	res.Sample = map[string]any{"issued_pairs": len(issued), "verify_calls": res.Evals, "faults": faultSteps(p)}
	finish(w, res)
	return res
}

// sendParts presents the session's first token as separate fields in the structure-aware
// family of variants.
func (c c10) sendParts(w *world.World, s *world.Session) {
	t := s.Tokens[0]
	send := func(label string, typ uint16, vt, idx int, nonce, ctx, kid, auth []byte) {
		w.Net.Send(&simnet.Msg{Sess: s.ID, Kind: world.KTokParts, From: "client", To: "origin", Payload: []byte{byte(vt), byte(idx)}, Tag: uint64(typ),
			Side: [][]byte{nonce, ctx, kid, auth}, Meta: label, Faults: []string{label}}, 0)
	}
	other := 6 - s.Type // 1 <-> 5
	cat := bytes.Join([][]byte{t.Nonce, t.Context, t.KeyID}, nil)
	send("honest", t.TokenType, s.Type, s.Iss, t.Nonce, t.Context, t.KeyID, t.Authenticator)
	// re-split without changing the concatenation: same input as carried, must still verify
	send("resplit@31/33/32", t.TokenType, s.Type, s.Iss, cat[:31], cat[31:64], cat[64:], t.Authenticator)
	send("resplit@0/64/32", t.TokenType, s.Type, s.Iss, cat[:0], cat[:64], cat[64:], t.Authenticator)
	send("resplit@96/0/0", t.TokenType, s.Type, s.Iss, cat, nil, nil, t.Authenticator)
	// other key, other type
	send("other-key", t.TokenType, s.Type, 1-s.Iss, t.Nonce, t.Context, t.KeyID, t.Authenticator)
	for i := 0; i < 2; i++ {
		send(fmt.Sprintf("cross-type/iss%d", i), t.TokenType, other, i, t.Nonce, t.Context, t.KeyID, t.Authenticator)
		send(fmt.Sprintf("cross-type-retagged/iss%d", i), uint16(other), other, i, t.Nonce, t.Context, t.KeyID, t.Authenticator)
	}
	send("retagged", uint16(other), s.Type, s.Iss, t.Nonce, t.Context, t.KeyID, t.Authenticator)
	// resized fields
	a := t.Authenticator
	send("auth-short", t.TokenType, s.Type, s.Iss, t.Nonce, t.Context, t.KeyID, a[:len(a)-1])
	send("auth-long", t.TokenType, s.Type, s.Iss, t.Nonce, t.Context, t.KeyID, append(append([]byte{}, a...), 0))
	send("auth-empty", t.TokenType, s.Type, s.Iss, t.Nonce, t.Context, t.KeyID, nil)
	send("auth-prefix-only", t.TokenType, s.Type, s.Iss, t.Nonce, t.Context, t.KeyID, a[:8])
	send("nonce-short", t.TokenType, s.Type, s.Iss, t.Nonce[:31], t.Context, t.KeyID, a)
	send("nonce-long", t.TokenType, s.Type, s.Iss, append(append([]byte{}, t.Nonce...), 0), t.Context, t.KeyID, a)
	send("keyid-dropped", t.TokenType, s.Type, s.Iss, t.Nonce, t.Context, nil, a)
	send("context-dropped", t.TokenType, s.Type, s.Iss, t.Nonce, nil, t.KeyID, a)
	send("all-empty", t.TokenType, s.Type, s.Iss, nil, nil, nil, nil)
	// the token presented under other token_type values: all 65 535 of them for type 5 on some
	// runs, a boundary-biased sample otherwise
	if s.Type == 5 && w.Plan.Index%32 == 1 {
		for tt := 0; tt < 1<<16; tt++ {
			if uint16(tt) != t.TokenType {
				send("type-field-sweep", uint16(tt), s.Type, s.Iss, t.Nonce, t.Context, t.KeyID, t.Authenticator)
			}
		}
	} else {
		h := uint64(w.Plan.Seed)
		for i := 0; i < 300; i++ {
			h = core.MixI(h, i)
			tt := uint16(h)
			if i < 40 {
				tt = []uint16{0, 1, 2, 3, 4, 5, 6, 0xff, 0x100, 0x105, 0x500, 0x501, 0x8005, 0xf005, 0xff05, 0xffff, 0xfffe, 0x7fff, 0x8000, 0x0101}[i%20] ^ uint16(i/20)
			}
			if tt != t.TokenType {
				send("type-field-sample", tt, s.Type, s.Iss, t.Nonce, t.Context, t.KeyID, t.Authenticator)
			}
		}
	}
	// the same bytes with the boundary between key id and authenticator moved: the carried
	// authenticator is then not the evaluation of the carried fields
	ka := append(append([]byte(nil), t.KeyID...), a...)
	for _, cut := range []int{31, 30, 33, 16, 0} {
		send(fmt.Sprintf("boundary-keyid/auth@%d", cut), t.TokenType, s.Type, s.Iss, t.Nonce, t.Context, ka[:cut], ka[cut:])
	}
	ca := append(append([]byte(nil), t.Context...), t.KeyID...)
	send("boundary-context/keyid+auth", t.TokenType, s.Type, s.Iss, t.Nonce, ca[:31], ca[31:], a)
}
