package props

import (
	"fmt"

	"github.com/cloudflare/circl/oprf"
	"github.com/cloudflare/pat-go/tokens"
	"github.com/cloudflare/pat-go/tokens/type1"
	"github.com/cloudflare/pat-go/tokens/type2"
	"github.com/cloudflare/pat-go/tokens/type3"
	"github.com/cloudflare/pat-go/tokens/type5"

	"verif/internal/conc"
	"verif/internal/core"
	"verif/internal/entropy"
	"verif/internal/fixtures"
	"verif/internal/world"
)

// C01c — the concurrent part of C01: several honest issuance sessions of one token type run as
// concurrent tasks against one issuer (a server handles requests on several goroutines; client
// code creates and finalizes requests for the same issuer key on several goroutines). Runs on
// the C17 engine; violations are reported under property C01. Race reports are not an oracle
// here (C17 judges races on issuers and keys); only C01's own clauses are: every honest
// session completes and yields a correctly bound token that verifies.
type c01c struct{ base }

func init() { core.Register(c01c{base{"C01c", "exploration", 192, 5000}}) }

func (c01c) Describe() core.Description {
	return core.Description{
		Race:            true,
		ReportAs:        "C01",
		PlansPerProcess: 8,
		Technique:       "deterministic simulation (C17 engine): honest issuance sessions of one token type executed as concurrent tasks against one shared issuer under seeded preemption at go/ast-inserted yield points; oracle = every session completes with correctly bound tokens that verify",
		Rule: "one evaluation = one honest session (create request, marshal, issuer decodes and evaluates, client finalizes, token verified) executed as one of 2-5 concurrent tasks on a shared issuer, 0-3 preemptions; " +
			"non-trivial = a preemption fired inside a session while another session on the same issuer was in progress; distinct = distinct (type, yield site)",
		Real:        []string{"clients and issuers of types 1, 2, 3 (without the attester), 5", "request codecs", "circl (instrumented copies)"},
		Stub:        []string{"task scheduler", "per-task entropy sources", "yield instrumentation (scratch copy only)"},
		Assumptions: []string{"client objects are stateless values and issuers are server-side objects: both are used from several goroutines in a deployment"},
	}
}

func (c c01c) Generate(seed uint64, tier string, idx int) *core.Plan {
	r := core.NewRand(core.MixI(core.Mix(seed, "C01c/"+tier), idx))
	p := &core.Plan{Prop: "C01c", Seed: r.U64(), Tier: tier, Cfg: map[string]int64{}}
	p.Cfg["type"] = int64([]int{1, 2, 3, 5}[idx%4])
	p.Cfg["keyseed"] = int64(r.Intn(1 << 20))
	nt := r.Range(2, 5)
	for t := 0; t < nt; t++ {
		p.Steps = append(p.Steps, core.Step{Op: "session", A: []int64{int64(t), int64(r.Intn(1 << 30)), int64(r.Range(1, 4)), int64(chLens[r.Intn(len(chLens))])}})
	}
	order := r.Perm(nt)
	for _, o := range order {
		p.Steps = append(p.Steps, core.Step{Op: "order", A: []int64{int64(o)}})
	}
	if !r.Bool(15) {
		np := r.Range(1, 3)
		for i := 0; i < np; i++ {
			y := r.Pick([]int{r.Intn(8), r.Intn(40), r.Intn(150), r.Intn(500), r.Intn(1500)})
			p.Steps = append(p.Steps, core.Step{Op: "preempt", A: []int64{int64(r.Intn(nt)), int64(y), int64(r.Intn(nt))}})
		}
	}
	return p
}

func (c c01c) Execute(p *core.Plan) *core.Result {
	res := core.NewResult()
	log := core.NewEventLog(false)
	typ := int(p.C("type", 1))
	setup := &entropy.Source{}
	setup.Reset(p.Seed)
	entropy.Dispatch = func() *entropy.Source { return setup }
	defer func() { entropy.Dispatch = nil }()
	seed := entropy.Block(p.Seed, 0, "config", fmt.Sprintf("c01c/%d", p.C("keyseed", 0)), 48, 0)
	rsaKey := fixtures.RSA(int(p.C("keyseed", 0)) % 8)
	var i1 *type1.BasicPrivateIssuer
	var i2 *type2.BasicPublicIssuer
	var i3 *type3.RateLimitedIssuer
	var i5 *type5.BatchedPrivateIssuer
	var keyID []byte
	switch typ {
	case 1:
		k, _ := oprf.DeriveKey(oprf.SuiteP384, oprf.VerifiableMode, seed, []byte("verif"))
		i1 = type1.NewBasicPrivateIssuer(k)
		keyID = i1.TokenKeyID()
	case 2:
		i2 = type2.NewBasicPublicIssuer(rsaKey)
		keyID = i2.TokenKeyID()
	case 3:
		setup.Begin("issuer3", "c01c/new")
		i3 = type3.NewRateLimitedIssuer(rsaKey)
		setup.Begin("issuer3", "c01c/origin")
		i3.AddOrigin("origin.example")
		keyID = i3.TokenKeyID()
	case 5:
		k, _ := oprf.DeriveKey(oprf.SuiteRistretto255, oprf.VerifiableMode, seed[:32], []byte("verif"))
		i5 = type5.NewBatchedPrivateIssuer(k)
		keyID = i5.TokenKeyID()
	}
	type sess struct {
		task  int
		s     *world.Session
		toks  []tokens.Token
		err   error
		stage string
	}
	var sessions []*sess
	nt := 0
	for _, st := range p.Steps {
		if st.Op != "session" {
			continue
		}
		t := int(st.Arg(0, 0))
		if t < 0 || t >= conc.MaxTasks {
			continue
		}
		r := core.NewRand(uint64(st.Arg(1, 0)))
		n := 1
		if typ == 5 {
			n = int(st.Arg(2, 1))
		}
		ws := &world.Session{Type: typ, Challenge: r.Bytes(int(st.Arg(3, 32)))}
		for i := 0; i < n; i++ {
			ws.Nonces = append(ws.Nonces, r.Bytes(32))
		}
		ws.Blind = r.Bytes(48)
		ws.Blind[0] = ws.Blind[0]&0x7f | 1
		secret := r.Bytes(48)
		secret[0] &= 0x7f
		ws.Meta = map[string]any{"secret": secret}
		sessions = append(sessions, &sess{task: t, s: ws})
		if t+1 > nt {
			nt = t + 1
		}
	}
	if nt == 0 {
		res.Infra = "plan without sessions"
		return res
	}
	run := func(x *sess) {
		defer func() {
			if r := recover(); r != nil {
				x.err = fmt.Errorf("panic: %v", r)
			}
		}()
		ws := x.s
		switch typ {
		case 1:
			x.stage = "create"
			st, err := type1.BasicPrivateClient{}.CreateTokenRequest(ws.Challenge, ws.Nonces[0], keyID, i1.TokenKey())
			if err != nil {
				x.err = err
				return
			}
			x.stage = "evaluate"
			rq := new(type1.BasicPrivateTokenRequest)
			if !rq.Unmarshal(st.Request().Marshal()) {
				x.err = fmt.Errorf("request decode failed")
				return
			}
			resp, err := i1.Evaluate(rq)
			if err != nil {
				x.err = err
				return
			}
			x.stage = "finalize"
			t, err := st.FinalizeToken(resp)
			x.toks, x.err = []tokens.Token{t}, err
		case 2:
			x.stage = "create"
			st, err := type2.BasicPublicClient{}.CreateTokenRequest(ws.Challenge, ws.Nonces[0], keyID, i2.TokenKey())
			if err != nil {
				x.err = err
				return
			}
			x.stage = "evaluate"
			rq := new(type2.BasicPublicTokenRequest)
			if !rq.Unmarshal(st.Request().Marshal()) {
				x.err = fmt.Errorf("request decode failed")
				return
			}
			resp, err := i2.Evaluate(rq)
			if err != nil {
				x.err = err
				return
			}
			x.stage = "finalize"
			t, err := st.FinalizeToken(resp)
			x.toks, x.err = []tokens.Token{t}, err
		case 3:
			x.stage = "create"
			cl := type3.NewRateLimitedClientFromSecret(ws.Meta["secret"].([]byte))
			st, err := cl.CreateTokenRequest(ws.Challenge, ws.Nonces[0], ws.Blind, keyID, i3.TokenKey(), "origin.example", i3.NameKey())
			if err != nil {
				x.err = err
				return
			}
			x.stage = "evaluate"
			resp, _, err := i3.Evaluate(st.Request().Marshal())
			if err != nil {
				x.err = err
				return
			}
			x.stage = "finalize"
			t, err := st.FinalizeToken(resp)
			x.toks, x.err = []tokens.Token{t}, err
		case 5:
			x.stage = "create"
			st, err := type5.BatchedPrivateClient{}.CreateTokenRequest(ws.Challenge, ws.Nonces, keyID, i5.TokenKey())
			if err != nil {
				x.err = err
				return
			}
			x.stage = "evaluate"
			rq := new(type5.BatchedPrivateTokenRequest)
			if !rq.Unmarshal(st.Request().Marshal()) {
				x.err = fmt.Errorf("request decode failed")
				return
			}
			resp, err := i5.Evaluate(rq)
			if err != nil {
				x.err = err
				return
			}
			x.stage = "finalize"
			x.toks, x.err = st.FinalizeTokens(resp)
		}
	}
	var order []int
	var pre []conc.Preempt
	for _, st := range p.Steps {
		switch st.Op {
		case "order":
			order = append(order, int(st.Arg(0, 0)))
		case "preempt":
			pre = append(pre, conc.Preempt{Task: int(st.Arg(0, 0)), Yield: int(st.Arg(1, 0)), Next: int(st.Arg(2, 0))})
			res.FaultPlanned("preemption")
		}
	}
	for t := 0; t < nt; t++ {
		found := false
		for _, o := range order {
			found = found || o == t
		}
		if !found {
			order = append(order, t)
		}
	}
	s := conc.New(order, pre)
	for t := 0; t < nt; t++ {
		t := t
		src := &entropy.Source{}
		src.Reset(p.Seed)
		src.YieldHook = func() { conc.Yield(-1) }
		var mine []*sess
		for _, x := range sessions {
			if x.task == t {
				mine = append(mine, x)
			}
		}
		s.AddTask(src, func() {
			for k, x := range mine {
				conc.Yield(-2)
				src.Begin(fmt.Sprintf("task%d", t), fmt.Sprintf("sess%d", k))
				run(x)
			}
		})
	}
	conc.InstallYieldHook()
	entropy.Dispatch = conc.CurrentSource
	s.Run()
	entropy.Dispatch = func() *entropy.Source { return setup }
	if s.Abandoned {
		res.Probe("schedule abandoned: the running task blocked on a lock held by a preempted task")
		res.Fingerprint = "abandoned"
		core.ExitAfterThisPlan = true
		return res
	}
	log.Add("type=%d tasks=%d trace=%v", typ, nt, s.Trace)
	for _, site := range s.SiteHits {
		res.FaultFired("preemption", true)
		res.Nontrivial(fmt.Sprintf("t%d/site%d", typ, site))
	}
	verify := func(t tokens.Token) error {
		switch typ {
		case 1:
			return i1.Verify(t)
		case 2, 3:
			return world.VerifyPSS(&rsaKey.PublicKey, t)
		}
		return i5.Verify(t)
	}
	for _, x := range sessions {
		res.Evals++
		log.Add("session t=%d err=%v n=%d", x.task, x.err != nil, len(x.toks))
		if x.err != nil {
			res.Violate(fmt.Sprintf("C01/type%d/concurrent/%s-failed", typ, x.stage), fmt.Sprintf("an honest session running concurrently with %d others on the same issuer failed at %s: %v", len(sessions)-1, x.stage, x.err), -1)
			continue
		}
		if len(x.toks) != len(x.s.Nonces) {
			res.Violate(fmt.Sprintf("C01/type%d/concurrent/count", typ), fmt.Sprintf("%d tokens for %d nonces", len(x.toks), len(x.s.Nonces)), -1)
			continue
		}
		for i, tk := range x.toks {
			if msg := CheckTokenBinding(x.s, i, tk, keyID); msg != "" {
				res.Violate(fmt.Sprintf("C01/type%d/concurrent/binding", typ), msg, -1)
			} else if err := verify(tk); err != nil {
				res.Violate(fmt.Sprintf("C01/type%d/concurrent/token-invalid", typ), fmt.Sprintf("token %d of a concurrently issued session does not verify: %v", i, err), -1)
			}
		}
	}
	if n := len(readRaceReports()); n > 0 {
		res.Probes["race reports during concurrent honest sessions (judged by C17, not here)"] += n
	}
	res.State(fmt.Sprintf("t%d/%v", typ, s.Trace))
	res.Sample = map[string]any{"type": typ, "tasks": nt, "sessions": len(sessions), "preemptions_fired": len(s.SiteHits), "trace": s.Trace}
	res.Fingerprint = log.Hash()
	return res
}
