package props

import (
	"fmt"

	"verif/internal/ref"
	"verif/internal/world"
)

// indepIssuerCheck is the independent acceptance check of C07/C20 for a rate-limited request
// arriving at issuer idx: own parse with no trailing bytes, HPKE open with the name key
// re-derived from recorded entropy and independently built associated data, unpad, membership
// in the registered set, crypto/ecdsa over wire[0:len-96].
func indepIssuerCheck(w *world.World, idx int, wire []byte) (ok bool, why string, in *ref.Inner) {
	is := w.I3[idx]
	r, err := ref.ParseRLRequest(wire)
	if err != nil {
		return false, "parse: " + err.Error(), nil
	}
	in, err = ref.OpenRLRequest(r, is.NameKeyBytes, is.Ikm)
	if err != nil {
		return false, "open: " + err.Error(), nil
	}
	if _, reg := is.Origins[in.Origin]; !reg {
		return false, fmt.Sprintf("origin %q not registered", in.Origin), in
	}
	if !ref.VerifyP384Raw(r.RequestKey, r.SignedPart, r.Signature) {
		return false, "signature", in
	}
	return true, "", in
}
