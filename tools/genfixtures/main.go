// genfixtures writes the RSA-2048 key pool under /verif/fixtures (run once; committed).
package main

import (
	"crypto/rand"
	"crypto/rsa"
	"crypto/x509"
	"encoding/pem"
	"fmt"
	"os"
)

func main() {
	for i := 0; i < 8; i++ {
		k, err := rsa.GenerateKey(rand.Reader, 2048)
		if err != nil {
			panic(err)
		}
		der := x509.MarshalPKCS1PrivateKey(k)
		f, _ := os.Create(fmt.Sprintf("internal/fixtures/rsa2048_%d.pem", i))
		pem.Encode(f, &pem.Block{Type: "RSA PRIVATE KEY", Bytes: der})
		f.Close()
	}
}
