#!/usr/bin/env python3
import json, os, collections
root = os.path.join(os.path.dirname(os.path.abspath(__file__)), "..", "seeded")
res = collections.defaultdict(list)
for l in open(os.path.join(root, "RESULTS.tsv")):
    f = l.rstrip("\n").split("\t")
    if len(f) >= 4: res[f[0]].append((f[1], f[2], f[3]))
out = ["# Seeded property-breaking changes", "",
 "Each change was written by an independent sub-agent that saw only the property text and a scratch worktree, compiles, passes the repository's 166 tests, and comes with a demonstration that fails with it and passes without it (all confirmed in a scratch worktree by `tools/collect_seeded.py`). Results below are from `tools/run_seeded.sh` (quick tier, default seed): `caught` = the check exited 1 with a VIOLATION line while the change was applied to /repo.", "",
 "| id | breaks | what it needs to manifest | check → result (first signatures) |", "|---|---|---|---|"]
caught = 0; total = 0
for d in sorted(os.listdir(root)):
    mp = os.path.join(root, d, "meta.json")
    if not os.path.exists(mp): continue
    m = json.load(open(mp)); total += 1
    cells = []
    anyc = False
    for c, rc, sig in res.get(d, []):
        ok = rc == "1"; anyc = anyc or ok
        cells.append("%s → %s%s" % (c, "caught" if ok else ("missed" if rc == "0" else "rc=" + rc), (" (" + sig[:110] + ")") if ok and sig else ""))
    caught += anyc
    need = (m.get("needs_to_manifest") or "").replace("\n", " ").replace("|", "/")[:260]
    summ = (m.get("summary") or "").replace("\n", " ").replace("|", "/")[:200]
    out.append("| %s | %s: %s | %s | %s |" % (d, m["property"], summ, need, "<br>".join(cells) or "not run"))
out += ["", "%d of %d seeded changes are caught by at least one check at the quick tier." % (caught, total)]
open(os.path.join(root, "INDEX.md"), "w").write("\n".join(out) + "\n")
print(out[-1])
