#!/bin/bash
# C17 engine: builds the yield-instrumented scratch copies of /repo (current working tree) and
# circl outside /repo and /verif, builds the -race worker binary against them through a
# generated -modfile, runs the check, removes the scratch copy.
#   ./conc.sh quick|thorough            run the check
#   ./conc.sh --replay <file>           replay with the race engine
set -u
cd "$(dirname "$0")"
export VERIF_ROOT="$PWD"
export GOFLAGS=-mod=mod GOPROXY=off GOSUMDB=off GOTOOLCHAIN=local
REPO="${VERIF_REPO:-/repo}"
BIN="${VERIF_BIN:-$PWD/bin/verifctl}"
WORK="$HOME/.cache/verif-work/c17-$$"
trap 'rm -rf "$WORK"' EXIT
mkdir -p "$WORK" bin
go build -o bin/yieldinstr ./tools/yieldinstr 2>bin/build-yi.log || { cat bin/build-yi.log >&2; echo "INFRA: yieldinstr build failed" >&2; exit 2; }
CIRCL=$(go list -m -f '{{.Dir}}' github.com/cloudflare/circl 2>/dev/null)
TAGS="verif"
MODFLAG=""
if [ -n "$CIRCL" ] && ./bin/yieldinstr -repo "$REPO" -circl "$CIRCL" -out "$WORK" >bin/yieldinstr.log 2>&1; then
  sed -e "s#=> /repo#=> $WORK/patgo#" go.mod > "$WORK/go.mod"
  echo "replace github.com/cloudflare/circl => $WORK/circl" >> "$WORK/go.mod"
  cp go.sum "$WORK/go.sum"
  if go build -race -tags "verif verifyield" -modfile="$WORK/go.mod" -o "$WORK/verifctl-race" ./cmd/verifctl 2>bin/build-race.log; then
    TAGS="verif verifyield"
  else
    echo "NOTE: instrumented build failed; falling back to the uninstrumented tree (operation-boundary and entropy-read yields only)" >&2
    head -20 bin/build-race.log >&2
    rm -f "$WORK/verifctl-race"
  fi
else
  echo "NOTE: yield instrumentation failed; falling back to the uninstrumented tree" >&2
  cat bin/yieldinstr.log >&2
fi
if [ ! -x "$WORK/verifctl-race" ]; then
  ALT=""; [ "$REPO" != "/repo" ] && { sed -e "s#=> /repo#=> $REPO#" go.mod > "$WORK/alt.mod"; cp go.sum "$WORK/alt.sum"; ALT="-modfile=$WORK/alt.mod"; }
  go build -race $ALT -tags "verif" -o "$WORK/verifctl-race" ./cmd/verifctl 2>bin/build-race.log || { cat bin/build-race.log >&2; echo "INFRA: race build failed" >&2; exit 2; }
fi
export VERIF_RACE_BIN="$WORK/verifctl-race"
if [ "${1:-}" = "--replay" ]; then
  "$BIN" replay "$2"; exit $?
fi
"$BIN" check "${2:-C17}" "${1:-quick}"
exit $?
