package props

import (
	"bytes"
	"crypto/elliptic"
	"crypto/rsa"
	"crypto/sha256"
	"crypto/x509"
	"encoding/json"
	"encoding/pem"
	"fmt"
	"math/big"
	"os"

	"github.com/cloudflare/pat-go/tokens/type3"
	"github.com/cloudflare/pat-go/util"

	"verif/internal/core"
	"verif/internal/fixtures"
	"verif/internal/ref"
	"verif/internal/world"
)

// C18 — token keys encode canonically and key identifiers are derived from them.
type c18 struct{ base }

func init() { core.Register(c18{base{"C18", "exploration", 3000, 80000}}) }

func (c18) Describe() core.Description {
	return core.Description{
		Technique: "deterministic simulation of the key directory and of issuance with key rotation while requests are in flight; a wire observer recomputes every key id from the bytes the directory published (SHA-256) and compares the key-id byte / name-key id carried by every request; published RSASSA-PSS SubjectPublicKeyInfo compared with an independently hand-assembled DER; both SPKI forms decoded back",
		Rule: "one evaluation = one key encoding or one request's key identifier checked; per run 1-3 issuers per type (a later issuer = a rotated key; sessions are spread over old and new keys and interleaved), 4-14 sessions, plus 6-20 synthetic RSA public keys (modulus 16..4096 bits, exponents 3, 65537, 2^31-1 and random) that only exercise the codec; " +
			"non-trivial = a request created for a rotated-away key that is still in flight, or a synthetic key of unusual size; distinct = distinct (token type, issuer generation) and (modulus bit length, exponent) pairs",
		Real:        []string{"util.MarshalTokenKeyPSSOID / MarshalTokenKeyRSAEncryptionOID / UnmarshalTokenKey", "TokenKeyID of the four issuer types", "clients' key-id truncation", "type3 EncapKey.Marshal / NameKeyID"},
		Stub:        []string{"directory", "network + wire observer", "own DER assembler (TLV helper, RFC 4055 / RFC 9578 structure)", "own five-field EncapKey encoder", "entropy", "arena"},
		Assumptions: []string{"leverage is low: synthetic keys are seeded generation with an independent oracle, not a fault", "the Rust interop vector's pkS (another implementation's encoding of the same key) is used as a second reference for the PSS form"},
	}
}

func (c c18) Generate(seed uint64, tier string, idx int) *core.Plan {
	r := core.NewRand(core.MixI(core.Mix(seed, "C18/"+tier), idx))
	p := &core.Plan{Prop: "C18", Seed: r.U64(), Tier: tier, Cfg: map[string]int64{}}
	p.Cfg["segmode"] = int64(r.Pick([]int{0, 2}))
	p.Cfg["jitter"] = int64(r.Pick([]int{0, 3_000_000, 40_000_000}))
	n := map[int]int{}
	for _, t := range []int64{1, 2, 3, 5} {
		n[int(t)] = r.Range(1, 3)
		for i := 0; i < n[int(t)]; i++ {
			key := int64(r.Intn(1 << 20))
			if t == 2 || t == 3 {
				key = int64(r.Intn(8))
			}
			p.Steps = append(p.Steps, core.Step{Op: "iss", A: []int64{t, key}})
		}
	}
	p.Steps = append(p.Steps, core.Step{Op: "client3", A: []int64{int64(r.Intn(1 << 20))}})
	for i := 0; i < n[3]; i++ {
		p.Steps = append(p.Steps, core.Step{Op: "origin", A: []int64{int64(i), 14, 777, 1, int64(100 + i)}})
	}
	ns := r.Range(4, 14)
	for i := 0; i < ns; i++ {
		t := r.Pick([]int{1, 2, 3, 5})
		a := make([]int64, sAnon+1)
		a[sID], a[sType] = int64(i+1), int64(t)
		a[sIss] = int64(r.Intn(n[t])) // old and new keys interleaved: rotation with requests in flight
		a[sChKind], a[sChLen], a[sSeed] = int64(r.Intn(2)), 32, int64(r.Intn(1<<30))
		a[sBatch] = int64(r.Range(1, 3))
		a[sOrigin], a[sAnon] = a[sIss], -2
		a[sDelay] = int64(r.Intn(10)) * 1_000_000
		p.Steps = append(p.Steps, core.Step{Op: "sess", A: a})
	}
	nk := r.Range(6, 20)
	for i := 0; i < nk; i++ {
		bits := r.Pick([]int{16, 17, 31, 32, 33, 127, 128, 512, 1023, 1024, 2047, 2048, 2049, 3072, 4096, 8192, 16383, 16384, 16385, 20000, 32768})
		if r.Bool(40) {
			bits = r.Range(16, 4096)
		}
		e := r.Pick([]int{3, 65537, 1<<31 - 1, 17, 257, 1 << 31, 1<<31 + 1, 1<<32 + 1, 1<<40 + 1, 1<<62 + 1, 1<<63 - 1})
		if r.Bool(20) {
			e = 3 + 2*r.Intn(1<<29)
		}
		p.Steps = append(p.Steps, core.Step{Op: "synth", A: []int64{int64(bits), int64(e), int64(r.Intn(1 << 30))}})
	}
	if idx%10 == 0 {
		p.Steps = append(p.Steps, core.Step{Op: "rustkeys"})
	}
	return p
}

// ---- own DER assembler
func tlv(tag byte, body []byte) []byte {
	out := []byte{tag}
	switch l := len(body); {
	case l < 128:
		out = append(out, byte(l))
	case l < 256:
		out = append(out, 0x81, byte(l))
	case l < 65536:
		out = append(out, 0x82, byte(l>>8), byte(l))
	default:
		out = append(out, 0x83, byte(l>>16), byte(l>>8), byte(l))
	}
	return append(out, body...)
}

func derInt(v *big.Int) []byte {
	b := v.Bytes()
	if len(b) == 0 {
		b = []byte{0}
	}
	if b[0]&0x80 != 0 {
		b = append([]byte{0}, b...)
	}
	return tlv(0x02, b)
}

func cat(parts ...[]byte) []byte { return bytes.Join(parts, nil) }

var (
	oidRSAPSS = []byte{0x06, 0x09, 0x2a, 0x86, 0x48, 0x86, 0xf7, 0x0d, 0x01, 0x01, 0x0a} // 1.2.840.113549.1.1.10
	oidMGF1   = []byte{0x06, 0x09, 0x2a, 0x86, 0x48, 0x86, 0xf7, 0x0d, 0x01, 0x01, 0x08} // 1.2.840.113549.1.1.8
	oidSHA384 = []byte{0x06, 0x09, 0x60, 0x86, 0x48, 0x01, 0x65, 0x03, 0x04, 0x02, 0x02} // 2.16.840.1.101.3.4.2.2
)

// RefPSSSPKI is the DER prescribed for Privacy Pass token keys (RFC 9578 section 6.5 via
// RFC 4055): RSASSA-PSS with SHA-384, MGF1 with SHA-384, salt length 48, parameters of the
// hash AlgorithmIdentifiers absent.
func RefPSSSPKI(n *big.Int, e int64) []byte {
	sha := tlv(0x30, oidSHA384)
	params := tlv(0x30, cat(
		tlv(0xa0, sha),
		tlv(0xa1, tlv(0x30, cat(oidMGF1, sha))),
		tlv(0xa2, derInt(big.NewInt(48))),
	))
	alg := tlv(0x30, cat(oidRSAPSS, params))
	pk := tlv(0x30, cat(derInt(n), derInt(big.NewInt(e))))
	return tlv(0x30, cat(alg, tlv(0x03, append([]byte{0}, pk...))))
}

func (c c18) Execute(p *core.Plan) *core.Result {
	res := core.NewResult()
	// before anything in this process has encoded a key: decode a token key the harness
	// assembled itself (the first plan of every worker process meets the codec cold)
	{
		fk := fixtures.RSAShared(int(p.Seed % 8))
		own := RefPSSSPKI(fk.N, int64(fk.E))
		back, err := util.UnmarshalTokenKey(own)
		res.Evals++
		if err != nil || back.N.Cmp(fk.N) != 0 || back.E != fk.E {
			res.Violate("C18/pss-decode-before-encode", fmt.Sprintf("a well-formed RSASSA-PSS token key is not decoded when decoding precedes any encoding in the process: %v", err), -1)
		}
	}
	w := BuildWorld(p, res, false)
	checkRSA := func(label string, pub *rsa.PublicKey) {
		res.Evals++
		der, err := util.MarshalTokenKeyPSSOID(pub)
		if err != nil {
			res.Violate("C18/pss-marshal-error", fmt.Sprintf("%s: %v", label, err), -1)
			return
		}
		want := RefPSSSPKI(pub.N, int64(pub.E))
		if !bytes.Equal(der, want) {
			res.Violate("C18/pss-der-differs", fmt.Sprintf("%s (%d-bit modulus, e=%d): RSASSA-PSS SPKI differs from the prescribed DER at byte %d (lengths %d / %d)", label, pub.N.BitLen(), pub.E, firstDiff(der, want), len(der), len(want)), -1)
		}
		back, err := util.UnmarshalTokenKey(der)
		if err != nil || back.N.Cmp(pub.N) != 0 || back.E != pub.E {
			res.Violate("C18/pss-decode", fmt.Sprintf("%s (%d-bit modulus, e=%d): decoding the PSS form does not return the key (%v)", label, pub.N.BitLen(), pub.E, err), -1)
		}
		legacy, err := util.MarshalTokenKeyRSAEncryptionOID(pub)
		if err != nil {
			res.Probe("rsaEncryption form refused by crypto/x509 for a synthetic key")
		} else {
			back, err := util.UnmarshalTokenKey(legacy)
			if err != nil || back.N.Cmp(pub.N) != 0 || back.E != pub.E {
				res.Violate("C18/legacy-decode", fmt.Sprintf("%s (%d-bit modulus, e=%d): decoding the rsaEncryption form does not return the key (%v)", label, pub.N.BitLen(), pub.E, err), -1)
			}
			if l2, _ := util.MarshalTokenKey(pub, true); !bytes.Equal(l2, legacy) {
				res.Violate("C18/marshal-flag", "MarshalTokenKey(legacy=true) differs from MarshalTokenKeyRSAEncryptionOID", -1)
			}
		}
		if p2, _ := util.MarshalTokenKey(pub, false); !bytes.Equal(p2, der) {
			res.Violate("C18/marshal-flag", "MarshalTokenKey(legacy=false) differs from MarshalTokenKeyPSSOID", -1)
		}
	}
	// published keys and issuer key ids
	gen := func(t, i int) string { return fmt.Sprintf("type%d/gen%d", t, i) }
	for i, is := range w.I1 {
		res.Evals++
		if id := sha256.Sum256(is.PubBytes); !bytes.Equal(is.Iss.TokenKeyID(), id[:]) {
			res.Violate("C18/keyid/type1", gen(1, i)+": TokenKeyID is not SHA-256 of the serialized public key", -1)
		}
	}
	for i, is := range w.I5 {
		res.Evals++
		if id := sha256.Sum256(is.PubBytes); !bytes.Equal(is.Iss.TokenKeyID(), id[:]) {
			res.Violate("C18/keyid/type5", gen(5, i)+": TokenKeyID is not SHA-256 of the serialized public key", -1)
		}
	}
	for i, is := range w.I2 {
		checkRSA(gen(2, i), &is.Key.PublicKey)
		if id := sha256.Sum256(RefPSSSPKI(is.Key.N, int64(is.Key.E))); !bytes.Equal(is.Iss.TokenKeyID(), id[:]) {
			res.Violate("C18/keyid/type2", gen(2, i)+": TokenKeyID is not SHA-256 of the prescribed SPKI", -1)
		}
	}
	for i, is := range w.I3 {
		checkRSA(gen(3, i), &is.Key.PublicKey)
		if id := sha256.Sum256(RefPSSSPKI(is.Key.N, int64(is.Key.E))); !bytes.Equal(is.Iss.TokenKeyID(), id[:]) {
			res.Violate("C18/keyid/type3", gen(3, i)+": TokenKeyID is not SHA-256 of the prescribed SPKI", -1)
		}
		// own five-field EncapKey encoder: key_id(1) kem_id(2) public_key kdf_id(2) aead_id(2)
		id, kem, kdf, aead, pk, ok := ref.EncapKeyParts(is.NameKeyBytes)
		own := cat([]byte{id, byte(kem >> 8), byte(kem)}, pk, []byte{byte(kdf >> 8), byte(kdf), byte(aead >> 8), byte(aead)})
		if !ok {
			res.Probe("EncapKey with a KEM public key that is not 32 bytes: five-field comparison skipped")
		} else if !bytes.Equal(own, is.NameKeyBytes) {
			res.Violate("C18/encapkey-encoding", gen(3, i)+": published EncapKey is not key_id || kem_id || public_key || kdf_id || aead_id", -1)
		}
	}
	// wire observer: ids carried by requests
	inflight := map[int]int{} // type -> sessions created so far per issuer generation
	w.Observers = append(w.Observers, func(o *world.Outcome) {
		s := o.S
		if o.Op != "create" || o.Err != nil {
			if o.Err != nil && o.Op != "redeem" {
				res.Violate("C18/honest-step-failed", fmt.Sprintf("session %d %s: %v", s.ID, o.Op, o.Err), -1)
			}
			return
		}
		res.Evals++
		inflight[s.Type]++
		var published []byte
		switch s.Type {
		case 1:
			published = w.I1[s.Iss].PubBytes
		case 2:
			published = w.I2[s.Iss].PubDER
		case 3:
			published = w.I3[s.Iss].PubDER
		case 5:
			published = w.I5[s.Iss].PubBytes
		}
		id := sha256.Sum256(published)
		rq := s.ReqBytes
		newer := 0
		switch s.Type {
		case 1:
			newer = len(w.I1) - 1 - s.Iss
		case 2:
			newer = len(w.I2) - 1 - s.Iss
		case 3:
			newer = len(w.I3) - 1 - s.Iss
		case 5:
			newer = len(w.I5) - 1 - s.Iss
		}
		if newer > 0 {
			res.Nontrivial(fmt.Sprintf("type%d/rotated-away-%d", s.Type, newer))
			res.Probe("request created for a key that has been rotated away while in flight")
		}
		res.State(fmt.Sprintf("type%d/gen%d", s.Type, s.Iss))
		if s.Type == 3 {
			if len(rq) < 83 {
				res.Violate("C18/request-short", "type-3 request too short", -1)
				return
			}
			nk := sha256.Sum256(w.I3[s.Iss].NameKeyBytes)
			if !bytes.Equal(rq[51:83], nk[:]) {
				res.Violate("C18/name-key-id", fmt.Sprintf("session %d: the request's name key id is not SHA-256 of the published EncapKey", s.ID), -1)
			}
			if got := s.St3.Request().NameKeyID; !bytes.Equal(got, nk[:]) {
				res.Violate("C18/name-key-id", fmt.Sprintf("session %d: Request().NameKeyID is not SHA-256 of the published EncapKey", s.ID), -1)
			}
			return
		}
		if len(rq) < 3 || rq[2] != id[31] {
			res.Violate(fmt.Sprintf("C18/truncated-key-id/type%d", s.Type), fmt.Sprintf("session %d: request carries key id byte %#x, last byte of SHA-256(published key) is %#x (first byte %#x)", s.ID, rq[2], id[31], id[0]), -1)
		}
	})
	StartAll(w)
	if !w.Net.Run() {
		res.Infra = "step budget exhausted"
	}
	c.foreignSuites(w, res)
	for _, id := range w.Order {
		if s := w.Sessions[id]; s.Finals == 0 && len(res.Violations) == 0 {
			res.Violate("C18/session-incomplete", fmt.Sprintf("session %d (type %d, issuer generation %d) did not complete", s.ID, s.Type, s.Iss), -1)
		}
	}
	// synthetic keys: codec only
	for _, st := range p.Steps {
		switch st.Op {
		case "synth":
			r := core.NewRand(uint64(st.Arg(2, 0)))
			bits := int(st.Arg(0, 2048))
			nb := r.Bytes((bits + 7) / 8)
			n := new(big.Int).SetBytes(nb)
			n.SetBit(n, bits-1, 1)
			for i := n.BitLen() - 1; i >= bits; i-- {
				n.SetBit(n, i, 0)
			}
			n.SetBit(n, 0, 1)
			pub := &rsa.PublicKey{N: n, E: int(st.Arg(1, 65537))}
			checkRSA("synthetic", pub)
			if st.Arg(2, 0)%3 == 0 {
				// the same modulus under another exponent, right afterwards (and back)
				e2 := 65537
				if pub.E == 65537 {
					e2 = 3
				}
				checkRSA("synthetic-same-modulus", &rsa.PublicKey{N: n, E: e2})
				checkRSA("synthetic-same-modulus", pub)
			}
			res.Nontrivial(fmt.Sprintf("synth/%d/%d", bits, pub.E))
		case "rustkeys":
			c.rustKeys(res, checkRSA)
		}
	}
	res.Sample = map[string]any{"issuers": map[string]int{"type1": len(w.I1), "type2": len(w.I2), "type3": len(w.I3), "type5": len(w.I5)}, "sessions": len(w.Order), "checks": res.Evals}
	finish(w, res)
	return res
}

// rustKeys: the Rust interop file carries, for its type-2 issuers, the private key (PEM) and
// the public key as encoded by the other implementation.
func (c c18) rustKeys(res *core.Result, checkRSA func(string, *rsa.PublicKey)) {
	data, err := os.ReadFile(core.RepoDir() + "/tokens/batched/batched-issuance-test-vectors-rust.json")
	if err != nil {
		res.Infra = "cannot read the Rust interop vectors: " + err.Error()
		return
	}
	var vs []struct {
		Issuance []struct {
			Type string `json:"type"`
			SkS  string `json:"skS"`
			PkS  string `json:"pkS"`
		} `json:"issuance"`
	}
	if err := json.Unmarshal(data, &vs); err != nil {
		res.Infra = "cannot parse the Rust interop vectors: " + err.Error()
		return
	}
	for _, v := range vs {
		for _, is := range v.Issuance {
			if is.Type != "0002" {
				continue
			}
			blk, _ := pem.Decode(core.Unhex(is.SkS))
			if blk == nil {
				res.Infra = "Rust vector: no PEM"
				return
			}
			k, err := x509.ParsePKCS8PrivateKey(blk.Bytes)
			if err != nil {
				res.Infra = "Rust vector: " + err.Error()
				return
			}
			pub := &k.(*rsa.PrivateKey).PublicKey
			res.Evals++
			if want := RefPSSSPKI(pub.N, int64(pub.E)); !bytes.Equal(want, core.Unhex(is.PkS)) {
				// the reference itself disagrees with the other implementation: harness fault
				res.Infra = "own DER reference disagrees with the Rust implementation's pkS"
				return
			}
			checkRSA("rust-vector-key", pub)
			res.Probe("Rust implementation's pkS reproduced")
		}
	}
}

var _ = world.KReq

// foreignSuites: the directory publishes name keys that advertise other registered KDF / AEAD
// identifiers; a client that decodes such a key and creates a request must carry SHA-256 of
// the published bytes as name key id (whether the issuer could serve it is not C18's business).
func (c c18) foreignSuites(w *world.World, res *core.Result) {
	if len(w.I3) == 0 || len(w.C3) == 0 {
		return
	}
	is := w.I3[0]
	pub, err := util.UnmarshalTokenKey(is.PubDER)
	if err != nil {
		return
	}
	// name keys of other registered KEMs (public keys of other lengths)
	for _, kk := range []struct {
		id uint16
		pk []byte
	}{
		{0x0010, elliptic.Marshal(elliptic.P256(), elliptic.P256().Params().Gx, elliptic.P256().Params().Gy)},
		{0x0012, elliptic.Marshal(elliptic.P521(), elliptic.P521().Params().Gx, elliptic.P521().Params().Gy)},
		{0x0021, append([]byte{5}, make([]byte, 55)...)},
	} {
		published := append([]byte{0x07, byte(kk.id >> 8), byte(kk.id)}, kk.pk...)
		published = append(published, 0x00, 0x01, 0x00, 0x01)
		nk, err := type3.UnmarshalEncapKey(published)
		res.Evals++
		if err != nil {
			res.Probe("EncapKey with another KEM refused by the decoder")
			continue
		}
		w.Ent.Begin("client", fmt.Sprintf("c18/kem/%d", kk.id))
		var st type3.RateLimitedTokenRequestState
		if pv := safely(func() {
			st, err = w.C3[0].C.CreateTokenRequest([]byte("challenge"), make([]byte, 32), append([]byte{1}, make([]byte, 47)...), is.KeyID, pub, "origin.example", nk)
		}); pv != nil || err != nil {
			res.Probe("request creation for a name key of another KEM failed")
			continue
		}
		want := sha256.Sum256(published)
		res.Nontrivial(fmt.Sprintf("namekey/kem%#x", kk.id))
		if !bytes.Equal(st.Request().NameKeyID, want[:]) {
			res.Violate("C18/name-key-id", fmt.Sprintf("name key of KEM %#04x (%d-byte public key): the request's name key id is not SHA-256 of the published EncapKey bytes", kk.id, len(kk.pk)), -1)
		}
	}
	for vi, ids := range [][2]byte{{2, 1}, {3, 1}, {1, 2}, {1, 3}, {3, 3}, {1, 1}, {1, 1}} {
		published := append([]byte(nil), is.NameKeyBytes...)
		published[len(published)-3], published[len(published)-1] = ids[0], ids[1]
		buf := append([]byte(nil), published...)
		if vi == 5 {
			buf = append(buf, 0xAA, 0xBB, 0xCC) // the directory response carries more bytes after the key
		}
		nk, err := type3.UnmarshalEncapKey(buf)
		if vi == 6 {
			for i := range buf {
				buf[i] = 0xEE // the receive buffer is reused after decoding
			}
		}
		res.Evals++
		if err != nil {
			res.Probe("EncapKey with other registered KDF/AEAD ids refused by the decoder")
			continue
		}
		w.Ent.Begin("client", fmt.Sprintf("c18/suite/%d/%d", ids[0], ids[1]))
		var st type3.RateLimitedTokenRequestState
		if pv := safely(func() {
			st, err = w.C3[0].C.CreateTokenRequest([]byte("challenge"), make([]byte, 32), append([]byte{1}, make([]byte, 47)...), is.KeyID, pub, "origin.example", nk)
		}); pv != nil || err != nil {
			res.Probe("request creation for a name key with other KDF/AEAD ids failed")
			continue
		}
		want := sha256.Sum256(published)
		res.Nontrivial(fmt.Sprintf("namekey/kdf%d/aead%d", ids[0], ids[1]))
		if !bytes.Equal(st.Request().NameKeyID, want[:]) {
			res.Violate("C18/name-key-id", fmt.Sprintf("name key published with kdf id %d / aead id %d: the request's name key id is not SHA-256 of the published EncapKey bytes", ids[0], ids[1]), -1)
		}
	}
}
