//go:build verifyield

package conc

import "github.com/cloudflare/circl/verifyield"

// Instrumented reports that this binary was built against the yield-instrumented scratch
// copies of /repo and circl.
const Instrumented = true

func InstallYieldHook() { verifyield.Hook = Yield; verifyield.NoYieldHook = NoYield }
