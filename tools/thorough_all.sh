#!/bin/bash
# Runs every property's thorough tier once on the unchanged tree and logs exit codes and times.
cd "$(dirname "$0")/.."
SEED="${1:-20261002}"; shift
IDS="$@"; [ -z "$IDS" ] && IDS=$(python3 -c "print(' '.join('C%02d'%i for i in range(1,21)))")
for id in $IDS; do
  t0=$(date +%s)
  out=$(VERIF_SEED=$SEED ./check $id thorough 2>&1); rc=$?
  t1=$(date +%s)
  echo "seed=$SEED $id rc=$rc secs=$((t1-t0)) $(echo "$out" | grep -E "^C[0-9]+c? thorough" | tr '\n' ' ')"
  [ $rc -ne 0 ] && echo "$out" | grep -E "VIOLATION|signature|detail|INFRA" | head -8
done
