#!/usr/bin/env python3
"""merge_evidence.py <ID> <ID>c — folds the concurrent engine's evidence (evidence/<ID>c.json)
into the property's evidence file under coverage.concurrent_engine, adds its evaluations and
violations, and removes the separate file."""
import json, os, sys
root = os.environ.get("VERIF_OUT") or os.environ.get("VERIF_ROOT") or "/verif"
a, b = (os.path.join(root, "evidence", x + ".json") for x in sys.argv[1:3])
if not (os.path.exists(a) and os.path.exists(b)):
    sys.exit(0)
ea, eb = json.load(open(a)), json.load(open(b))
ca, cb = ea["coverage"], eb["coverage"]
ca["concurrent_engine"] = {k: cb.get(k) for k in ("technique", "rule", "evaluations", "distinct_nontrivial", "simulated_runs", "fault_kinds", "reach_probes", "distinct_states", "samples", "components_real_code", "components_stub")}
ca["evaluations"] = ca.get("evaluations", 0) + cb.get("evaluations", 0)
ca["simulated_runs"] = ca.get("simulated_runs", 0) + cb.get("simulated_runs", 0)
ea["violations"] = ea.get("violations", 0) + eb.get("violations", 0)
ea["wall_s"] = ea.get("wall_s", 0) + eb.get("wall_s", 0)
ea["assumptions"] = (ea.get("assumptions") or []) + ["concurrent engine: " + x for x in (eb.get("assumptions") or [])]
json.dump(ea, open(a, "w"), indent=1)
os.remove(b)
