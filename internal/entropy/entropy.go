// Package entropy is the simulated entropy source. It is installed as crypto/rand.Reader for
// the whole process and handed to every function that takes an io.Reader.
//
// A read of n bytes by party p in operation op returns PRF(seed, p, op, n, k) where k counts
// the reads of length n in the current (p, op). So: replay is bit-exact even though
// ecdsa.MaybeReadByte's extra 1-byte read is decided by the Go runtime (1-byte reads have their
// own stream, are not logged and never fault); a second execution of the same (p, op) sees the
// same entropy; and the simulator knows every secret any party drew.
//
// Faults address "the k-th logical read (length != 1) of the current operation". A logical
// read that was cut short by a fault is continued from the same block at the right offset by
// the following calls, so a caller that loops until its buffer is full (io.ReadFull) ends up
// with exactly the bytes an uninterrupted read would have produced.
package entropy

import (
	"crypto/aes"
	"crypto/cipher"
	"crypto/rand"
	"crypto/sha256"
	"encoding/binary"
	"errors"
	"fmt"
	"io"
)

var ErrInjected = errors.New("simulated entropy failure")

type FaultKind int

const (
	None         FaultKind = iota
	ErrAt                  // return (0, err) at logical read k
	PartialAt              // return (m<n, err) at logical read k
	ShortAt                // return (m<n, nil) at logical read k, remainder on following calls
	StallAt                // return (0, nil) Param times, then serve
	Poison                 // every read fails
	ValueThenErr           // logical read K returns Param-valued bytes (0x00 / 0xFF ...); every later read fails
)

type Fault struct {
	Kind  FaultKind
	K     int   // logical read index (0-based, 1-byte reads excluded)
	Param int   // partial length (bytes delivered) / stall count; for ShortAt: chunk size (1, half(-1), n-1(-2))
	Err   error // error value for ErrAt/PartialAt
}

type ReadRec struct {
	Party, Op string
	N         int
	K         int // per-length counter
}

// Source is the process-wide simulated entropy source. Not safe for truly concurrent use;
// under the task scheduler exactly one task runs at a time and each task sets its context.
type Source struct {
	seed    uint64
	stream  uint64 // E-DIFFERENT: alternative stream id
	party   string
	op      string
	counts  map[int]int
	logical int
	// continuation of a cut logical read
	pending    []byte
	pendingOff int
	chunk      int
	stalls     int

	fault Fault
	Fired int // how often the current fault fired
	Log   []ReadRec
	Reads int // logical reads in current op
	// YieldHook, if set, is called before every logical read (conc engine).
	YieldHook  func()
	TotalReads int
}

var Global = &Source{}

type globalReader struct{}

// Dispatch, if set, selects the source of the running task (conc engine: one source per task,
// so that tasks share no harness state).
var Dispatch func() *Source

func (globalReader) Read(p []byte) (int, error) {
	if Dispatch != nil {
		return Dispatch().Read(p)
	}
	return Global.Read(p)
}

// Install replaces crypto/rand.Reader by the simulated source.
func Install() { rand.Reader = globalReader{} }

// Reader returns an io.Reader view of the global source (for io.Reader parameters).
func Reader() io.Reader { return globalReader{} }

func (s *Source) Reset(seed uint64) {
	s.seed = seed
	s.stream = 0
	s.party, s.op = "", ""
	s.counts = map[int]int{}
	s.logical = 0
	s.pending = nil
	s.fault = Fault{}
	s.Fired = 0
	s.Log = s.Log[:0]
	s.Reads = 0
	s.stalls = 0
	s.TotalReads = 0
}

// Begin starts a new operation context: counters restart, any fault is cleared.
func (s *Source) Begin(party, op string) {
	s.party, s.op = party, op
	s.counts = map[int]int{}
	s.logical = 0
	s.pending = nil
	s.fault = Fault{}
	s.Fired = 0
	s.Reads = 0
	s.stalls = 0
}

func (s *Source) SetStream(id uint64) { s.stream = id }

func (s *Source) SetFault(f Fault) { s.fault = f; s.Fired = 0; s.stalls = 0 }

func (s *Source) Context() (string, string) { return s.party, s.op }

// Block computes the bytes of read (party, op, n, k) — exported so oracles can re-derive
// secrets a party drew.
func Block(seed, stream uint64, party, op string, n, k int) []byte {
	h := sha256.New()
	var b [8]byte
	binary.BigEndian.PutUint64(b[:], seed)
	h.Write(b[:])
	binary.BigEndian.PutUint64(b[:], stream)
	h.Write(b[:])
	fmt.Fprintf(h, "|%s|%s|%d|%d", party, op, n, k)
	key := h.Sum(nil)
	out := make([]byte, n)
	if n <= 32 {
		copy(out, key)
		return out
	}
	blk, _ := aes.NewCipher(key)
	var iv [16]byte
	cipher.NewCTR(blk, iv[:]).XORKeyStream(out, out)
	return out
}

func (s *Source) Read(p []byte) (int, error) {
	n := len(p)
	if n == 0 {
		return 0, nil
	}
	if s.counts == nil {
		s.counts = map[int]int{}
	}
	if n == 1 && s.pending == nil {
		// MaybeReadByte stream: unobservable, never faulted, never logged.
		k := s.counts[1]
		s.counts[1] = k + 1
		copy(p, Block(s.seed, s.stream, s.party, s.op, 1, k))
		return 1, nil
	}
	if s.fault.Kind == Poison {
		s.Fired++
		s.Log = append(s.Log, ReadRec{s.party, s.op, n, -1})
		return 0, ErrInjected
	}
	if s.pending != nil {
		// continuation of a cut logical read
		rest := s.pending[s.pendingOff:]
		if s.chunk > 0 && len(rest) > s.chunk {
			rest = rest[:s.chunk]
		}
		m := copy(p, rest)
		s.pendingOff += m
		if s.pendingOff >= len(s.pending) {
			s.pending = nil
		}
		return m, nil
	}
	if s.YieldHook != nil {
		s.YieldHook()
	}
	idx := s.logical
	f := s.fault
	if f.Kind == StallAt && f.K == idx && s.stalls < f.Param {
		s.stalls++
		s.Fired++
		return 0, nil
	}
	s.logical++
	s.Reads++
	s.TotalReads++
	k := s.counts[n]
	s.counts[n] = k + 1
	if len(s.Log) < 4096 {
		s.Log = append(s.Log, ReadRec{s.party, s.op, n, k})
	}
	blk := Block(s.seed, s.stream, s.party, s.op, n, k)
	if f.Kind == ValueThenErr {
		switch {
		case idx == f.K:
			s.Fired++
			for i := range p {
				p[i] = byte(f.Param)
			}
			return n, nil
		case idx > f.K:
			s.Fired++
			err := f.Err
			if err == nil {
				err = ErrInjected
			}
			return 0, err
		}
	}
	if f.Kind != None && f.K == idx {
		switch f.Kind {
		case ErrAt:
			s.Fired++
			err := f.Err
			if err == nil {
				err = ErrInjected
			}
			return 0, err
		case PartialAt:
			s.Fired++
			m := f.Param
			if m >= n {
				m = n - 1
			}
			if m < 0 {
				m = 0
			}
			copy(p, blk[:m])
			err := f.Err
			if err == nil {
				err = ErrInjected
			}
			return m, err
		case ShortAt:
			m := f.Param
			switch {
			case m == -1:
				m = n / 2
			case m == -2:
				m = n - 1
			}
			if m < 1 {
				m = 1
			}
			if m >= n {
				break
			}
			s.Fired++
			copy(p, blk[:m])
			s.pending = blk
			s.pendingOff = m
			s.chunk = 0
			if f.Param == 1 {
				s.chunk = 1
			}
			return m, nil
		}
	}
	copy(p, blk)
	return n, nil
}
