package ref

import (
	"crypto/sha512"
	"math/big"
)

// Twisted Edwards arithmetic for edwards25519 over math/big, written from RFC 8032 section 5.1
// (affine coordinates; slow and simple). Used as the reference for Ed25519 key blinding.

var (
	edP, _ = new(big.Int).SetString("57896044618658097711785492504343953926634992332820282019728792003956564819949", 10) // 2^255 - 19
	EdL, _ = new(big.Int).SetString("7237005577332262213973186563042994240857116359379907606001950938285454250989", 10)
	edD    = func() *big.Int {
		// d = -121665/121666 mod p
		inv := new(big.Int).ModInverse(big.NewInt(121666), edP)
		d := new(big.Int).Mul(big.NewInt(-121665), inv)
		return d.Mod(d, edP)
	}()
	edSqrtM1 = func() *big.Int {
		// 2^((p-1)/4)
		e := new(big.Int).Sub(edP, big.NewInt(1))
		e.Rsh(e, 2)
		return new(big.Int).Exp(big.NewInt(2), e, edP)
	}()
)

type EdPoint struct{ X, Y *big.Int }

func edMod(v *big.Int) *big.Int { return v.Mod(v, edP) }

// EdDecode decodes a 32-byte point encoding the way RFC 8032 decoders that accept
// non-canonical y do (y is reduced mod p); ok=false if x cannot be recovered.
func EdDecode(b []byte) (EdPoint, bool) {
	if len(b) != 32 {
		return EdPoint{}, false
	}
	le := make([]byte, 32)
	for i := range b {
		le[31-i] = b[i]
	}
	sign := le[0] >> 7
	le[0] &= 0x7f
	y := new(big.Int).SetBytes(le)
	y.Mod(y, edP)
	// x^2 = (y^2 - 1) / (d y^2 + 1)
	y2 := edMod(new(big.Int).Mul(y, y))
	u := edMod(new(big.Int).Sub(y2, big.NewInt(1)))
	v := edMod(new(big.Int).Add(new(big.Int).Mul(edD, y2), big.NewInt(1)))
	vinv := new(big.Int).ModInverse(v, edP)
	if vinv == nil {
		return EdPoint{}, false
	}
	x2 := edMod(new(big.Int).Mul(u, vinv))
	// x = x2^((p+3)/8)
	e := new(big.Int).Add(edP, big.NewInt(3))
	e.Rsh(e, 3)
	x := new(big.Int).Exp(x2, e, edP)
	if edMod(new(big.Int).Mul(x, x)).Cmp(x2) != 0 {
		x = edMod(new(big.Int).Mul(x, edSqrtM1))
		if edMod(new(big.Int).Mul(x, x)).Cmp(x2) != 0 {
			return EdPoint{}, false
		}
	}
	if x.Sign() == 0 && sign == 1 {
		// RFC 8032 rejects this; permissive decoders accept x = 0. Report it as x = 0.
		return EdPoint{x, y}, true
	}
	if uint(x.Bit(0)) != uint(sign) {
		x = edMod(new(big.Int).Sub(edP, x))
	}
	return EdPoint{x, y}, true
}

func (p EdPoint) Encode() []byte {
	le := p.Y.FillBytes(make([]byte, 32))
	if p.X.Bit(0) == 1 {
		le[0] |= 0x80
	}
	out := make([]byte, 32)
	for i := range le {
		out[31-i] = le[i]
	}
	return out
}

func EdAdd(a, b EdPoint) EdPoint {
	// x3 = (x1y2 + x2y1) / (1 + d x1x2y1y2), y3 = (y1y2 + x1x2) / (1 - d x1x2y1y2)
	x1y2 := new(big.Int).Mul(a.X, b.Y)
	x2y1 := new(big.Int).Mul(b.X, a.Y)
	y1y2 := new(big.Int).Mul(a.Y, b.Y)
	x1x2 := new(big.Int).Mul(a.X, b.X)
	t := edMod(new(big.Int).Mul(edD, edMod(new(big.Int).Mul(edMod(x1x2), edMod(y1y2)))))
	nx := edMod(new(big.Int).Add(x1y2, x2y1))
	ny := edMod(new(big.Int).Add(y1y2, x1x2))
	dx := new(big.Int).ModInverse(edMod(new(big.Int).Add(big.NewInt(1), t)), edP)
	dy := new(big.Int).ModInverse(edMod(new(big.Int).Sub(big.NewInt(1), t)), edP)
	return EdPoint{edMod(nx.Mul(nx, dx)), edMod(ny.Mul(ny, dy))}
}

func EdScalarMult(k *big.Int, p EdPoint) EdPoint {
	r := EdPoint{big.NewInt(0), big.NewInt(1)}
	for i := k.BitLen() - 1; i >= 0; i-- {
		r = EdAdd(r, r)
		if k.Bit(i) == 1 {
			r = EdAdd(r, p)
		}
	}
	return r
}

// EdBlindScalar is SHA-512(blind || 0x00 || context)[0:32] as a little-endian integer mod L.
func EdBlindScalar(blind, context []byte) *big.Int {
	in := append(append(append([]byte{}, blind...), 0x00), context...)
	h := sha512.Sum512(in)
	be := make([]byte, 32)
	for i := 0; i < 32; i++ {
		be[31-i] = h[i]
	}
	k := new(big.Int).SetBytes(be)
	return k.Mod(k, EdL)
}

// EdBlindPublicKey is the reference blinded public key: k * A.
func EdBlindPublicKey(pub, blind, context []byte) ([]byte, bool) {
	a, ok := EdDecode(pub)
	if !ok {
		return nil, false
	}
	return EdScalarMult(EdBlindScalar(blind, context), a).Encode(), true
}

// EdBase returns the Ed25519 base point (y = 4/5, x positive... i.e. even).
func EdBase() EdPoint {
	y := new(big.Int).Mul(big.NewInt(4), new(big.Int).ModInverse(big.NewInt(5), edP))
	y.Mod(y, edP)
	p, _ := EdDecode(reverse(y.FillBytes(make([]byte, 32))))
	return p
}

func reverse(b []byte) []byte {
	for i, j := 0, len(b)-1; i < j; i, j = i+1, j-1 {
		b[i], b[j] = b[j], b[i]
	}
	return b
}
