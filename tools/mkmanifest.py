#!/usr/bin/env python3
"""Generates /verif/MANIFEST.json from the table below (kept in one place so the manifest
stays valid while checks are added)."""
import json, os
ROOT = os.path.dirname(os.path.dirname(os.path.abspath(__file__)))
ALL = ["C%02d" % i for i in range(1, 21)]
# id -> (level, technique, level text, level note, design ref)
CHECKS = {
 "C01": ("exploration", "deterministic simulation of the whole issuance deployment over a simulated byte network; seeded benign-fault schedules; independent token oracle",
         "Seeded search over honest deployment runs (all four token types, interleaved sessions, delay/reorder/duplicate/drop+retransmit/segmentation, key and size configuration); every session must end in tokens that match an independently built encoding and verify (issuer Verify / crypto/rsa). Sampling, not proof.",
         "Trusts Go stdlib crypto, circl VOPRF/blind-RSA, go-hpke; RSA keys from a fixture pool of 8.", "DESIGN.md §4 C01"),
}
PENDING_REASON = "check not built yet in this session (work in progress; see DESIGN.md §4 for the planned simulation)"
def main():
    checks = []
    for pid in ALL:
        if pid not in CHECKS: continue
        level, tech, text, note, ref = CHECKS[pid]
        checks.append({
            "property_id": pid,
            "quick_cmd": "./check %s quick" % pid,
            "thorough_cmd": "./check %s thorough" % pid,
            "evidence_file": "/verif/evidence/%s.json" % pid,
            "replay_cmd_template": "./check --replay {path}",
            "engine": "conc" if pid == "C17" else ("sig" if pid in ("C12","C13","C14","C15") else "net"),
            "level_claimed": {"category": level, "text": text, "design_ref": ref},
            "level_note": note,
            "technique": tech,
        })
    m = {
        "version": 1,
        "setup_cmd": "./check --build",
        "hooks": {"guard": "verif", "enable": "go build -tags verif (all engines are built with the tag; no hook source exists in /repo so far)",
                  "baseline_off_cmd": "/verif/baseline.sh", "source_commits": [], "add_only": True},
        "engines": [
            {"name": "net", "path": "/verif/internal/world", "serves_properties": [p for p in CHECKS if p not in ("C12","C13","C14","C15","C17")], "kind_free_text": "deployment simulator: clients, attester, issuers, batch issuer, origin, directory over a quicwire-framed simulated byte network, simulated entropy, arena"},
            {"name": "sig", "path": "/verif/internal/props", "serves_properties": [p for p in CHECKS if p in ("C12","C13","C14","C15")], "kind_free_text": "signer/blinder/verifier pipeline with entropy faults and stdlib reference model"},
            {"name": "conc", "path": "/verif/internal/conc", "serves_properties": [p for p in CHECKS if p == "C17"], "kind_free_text": "seeded one-at-a-time task scheduler under the race detector on a yield-instrumented scratch copy"},
        ],
        "checks": checks,
        "not_applicable": [{"property_id": p, "reason": PENDING_REASON} for p in ALL if p not in CHECKS],
        "notes": "All checks: ./check <ID> <tier>; VERIF_SEED selects the seed; exit 0 held, 1 violation (VIOLATION line + replay file), 2 infrastructure trouble. known_findings.json lists fixed/known findings.",
    }
    json.dump(m, open(os.path.join(ROOT, "MANIFEST.json"), "w"), indent=1)
main()
