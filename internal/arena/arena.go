// Package arena hands out the byte slices the harness gives to repository code. Each slice is
// carved as  guard | data | spare | guard  and sliced buf[a : a+len : a+len+spare], so that a
// callee which appends to an argument writes into the spare region, and one which indexes
// beyond len (within cap) is visible. After a call, Audit compares data, spare and guards
// with what was handed out.
package arena

import (
	"bytes"
	"fmt"
)

const guardLen = 16

type Layout struct {
	Spare  int  // spare capacity behind every slice
	Poison byte // content of the spare region
	Guard  byte // content of the guard regions
}

type alloc struct {
	name  string
	buf   []byte // whole region incl. guards
	n     int    // data length
	spare int
	snap  []byte // copy of data at hand-out
	lay   Layout
}

type Arena struct {
	L      Layout
	allocs []*alloc
	// Pool: buffers go back to a pool when released, are scrambled (the caller "refills its
	// receive buffer") and are handed out again for the next allocation of the same size — the
	// way a deployment's buffer pool behaves. Code that kept a reference to an argument instead
	// of copying it then sees other bytes.
	Pool     bool
	Scramble byte
	free     map[int][][]byte
	Reused   int
}

func New(l Layout) *Arena { return &Arena{L: l} }

// Put copies data into the arena and returns the arena-backed slice (len = len(data),
// cap = len(data)+spare).
func (a *Arena) Put(name string, data []byte) []byte {
	l := a.L
	n := len(data)
	total := guardLen + n + l.Spare + guardLen
	var buf []byte
	if a.Pool && len(a.free[total]) > 0 {
		fl := a.free[total]
		buf = fl[len(fl)-1]
		a.free[total] = fl[:len(fl)-1]
		a.Reused++
	} else {
		buf = make([]byte, total)
	}
	for i := 0; i < guardLen; i++ {
		buf[i] = l.Guard
		buf[guardLen+n+l.Spare+i] = l.Guard
	}
	copy(buf[guardLen:], data)
	for i := 0; i < l.Spare; i++ {
		buf[guardLen+n+i] = l.Poison
	}
	al := &alloc{name: name, buf: buf, n: n, spare: l.Spare, snap: append([]byte(nil), data...), lay: l}
	a.allocs = append(a.allocs, al)
	return buf[guardLen : guardLen+n : guardLen+n+l.Spare]
}

// Audit checks every live allocation and returns a description of each difference.
func (a *Arena) Audit() []string {
	var out []string
	for _, al := range a.allocs {
		d := al.buf[guardLen : guardLen+al.n]
		if !bytes.Equal(d, al.snap) {
			out = append(out, fmt.Sprintf("%s: data changed (first diff at %d of %d)", al.name, firstDiff(d, al.snap), al.n))
		}
		for i := 0; i < al.spare; i++ {
			if al.buf[guardLen+al.n+i] != al.lay.Poison {
				out = append(out, fmt.Sprintf("%s: spare capacity written at +%d (len %d, spare %d)", al.name, i, al.n, al.spare))
				break
			}
		}
		for i := 0; i < guardLen; i++ {
			if al.buf[i] != al.lay.Guard || al.buf[guardLen+al.n+al.spare+i] != al.lay.Guard {
				out = append(out, fmt.Sprintf("%s: guard bytes written", al.name))
				break
			}
		}
	}
	return out
}

// Release forgets all allocations (end of a call group). In pool mode the buffers are
// scrambled and kept for reuse.
func (a *Arena) Release() {
	if a.Pool {
		if a.free == nil {
			a.free = map[int][][]byte{}
		}
		for _, al := range a.allocs {
			for i := range al.buf {
				al.buf[i] = a.Scramble
			}
			a.free[len(al.buf)] = append(a.free[len(al.buf)], al.buf)
		}
	}
	a.allocs = a.allocs[:0]
}

func (a *Arena) Live() int { return len(a.allocs) }

func firstDiff(x, y []byte) int {
	for i := range x {
		if i >= len(y) || x[i] != y[i] {
			return i
		}
	}
	return len(x)
}

// Watch records a snapshot of a value handed out earlier by repository code (a request
// encoding, a token field) so later calls can be checked not to alter it.
type Watch struct {
	Name string
	Ref  []byte // the live slice (aliases the object's memory)
	Snap []byte
}

func NewWatch(name string, b []byte) *Watch {
	return &Watch{Name: name, Ref: b, Snap: append([]byte(nil), b...)}
}

func (w *Watch) Changed() bool { return !bytes.Equal(w.Ref, w.Snap) }
