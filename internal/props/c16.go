package props

import (
	"bytes"
	"crypto/elliptic"
	"crypto/sha512"
	"fmt"
	"strings"

	"github.com/cloudflare/pat-go/ecdsa"
	"github.com/cloudflare/pat-go/ed25519"
	"github.com/cloudflare/pat-go/tokens"
	"github.com/cloudflare/pat-go/tokens/batched"
	"github.com/cloudflare/pat-go/tokens/type1"
	"github.com/cloudflare/pat-go/tokens/type2"

	"verif/internal/arena"
	"verif/internal/core"
	"verif/internal/entropy"
	"verif/internal/world"
)

// C16 — operations have no hidden side effects on caller-visible memory.
type c16 struct{ base }

func init() { core.Register(c16{base{"C16", "exploration", 1000, 25000}}) }

func (c16) Describe() core.Description {
	return core.Description{
		Technique: "deterministic simulation with the arena in strict mode: every argument of every exported operation on the simulated paths lives in a guard|data|spare|guard buffer whose spare capacity, poison and neighbours come from the plan; arguments are audited after every call, the whole run is executed a second time under another layout with the same entropy (fingerprints must be equal), and values handed out earlier (requests, encodings, tokens) are snapshotted and re-checked after every later call on the same objects (duplicated responses -> second finalize, second evaluation, decoder reuse)",
		Rule: "one evaluation = one call whose arguments were audited or one snapshot re-checked; per run a deployment with all four token types, 4-10 sessions with duplicated responses and requests, decoder reuse on/off, spare capacity in {0,1,7,64,4096}, plus 10-30 direct calls of the ecdsa/ed25519 blinding, signing and verification functions with arena-backed keys, blinds, contexts and messages; " +
			"non-trivial = a call made with spare capacity > 0 behind at least one argument, or a later call on an object whose earlier results are being watched; distinct = distinct (operation, spare class, history position)",
		Real:        []string{"all clients, issuers, attester, codecs on the C01 paths", "ecdsa.Blind*/Unblind*/BlindKeySign*/Sign/Verify", "ed25519.Blind*/Unblind*/BlindKeySign*/Sign/Verify"},
		Stub:        []string{"arena", "network with duplicate faults", "entropy", "recording cache"},
		Assumptions: []string{"reads beyond len (within cap) cannot be observed directly; they are caught when they change a result, by the second execution under another poison byte"},
	}
}

func (c c16) Generate(seed uint64, tier string, idx int) *core.Plan {
	r := core.NewRand(core.MixI(core.Mix(seed, "C16/"+tier), idx))
	p := &core.Plan{Prop: "C16", Seed: r.U64(), Tier: tier, Cfg: map[string]int64{}}
	p.Cfg["spare"] = int64(r.Pick([]int{1, 7, 64, 64, 4096}))
	if idx%6 == 0 {
		p.Cfg["spare"] = 0
	}
	p.Cfg["poison"] = int64(r.Intn(256))
	p.Cfg["poison2"] = int64(r.Intn(256))
	p.Cfg["spare2"] = int64(r.Pick([]int{0, 1, 7, 64, 4096}))
	p.Cfg["segmode"] = int64(r.Pick([]int{0, 2}))
	p.Cfg["reuse"] = int64(r.Intn(2))
	var types []int
	for _, t := range []int{1, 2, 3, 5} {
		if r.Bool(65) {
			types = append(types, t)
		}
	}
	if len(types) == 0 {
		types = []int{3}
	}
	n1, n2, _, n5, ncl, nor := genConfig(r, p, types, false)
	p.Cfg["spare"] = p.Cfg["spare"] // genConfig overwrote it: restore the strict values
	p.Cfg["spare"] = int64(r.Pick([]int{1, 7, 64, 64, 4096}))
	if idx%6 == 0 {
		p.Cfg["spare"] = 0
	}
	ns := r.Range(4, 10)
	for i := 0; i < ns; i++ {
		t := types[r.Intn(len(types))]
		a := make([]int64, sAnon+1)
		a[sID], a[sType] = int64(i+1), int64(t)
		switch t {
		case 1:
			a[sIss] = int64(r.Intn(n1))
		case 2:
			a[sIss] = int64(r.Intn(n2))
		case 5:
			a[sIss], a[sBatch] = int64(r.Intn(n5)), int64(r.Range(1, 5))
		case 3:
			a[sClient], a[sOrigin] = int64(r.Intn(ncl)), int64(r.Intn(nor))
		}
		a[sChKind], a[sChLen], a[sSeed] = int64(r.Intn(2)), int64(chLens[r.Intn(len(chLens))]), int64(r.Intn(1<<30))
		a[sDelay], a[sAnon] = int64(r.Intn(10))*1_000_000, -2
		if t == 3 && r.Bool(25) {
			a = append(a, 0, int64(r.Range(1, 2))) // sBlindRef, sBlindClass: a blind at or above the group order
		}
		p.Steps = append(p.Steps, core.Step{Op: "sess", A: a})
		hops := []int{world.KReq, world.KResp}
		if t == 3 {
			hops = []int{world.KAttReq, world.KIssReq, world.KIssResp, world.KAttResp}
		}
		for _, h := range hops {
			if r.Bool(55) {
				p.Steps = append(p.Steps, core.Step{Op: "fault", S: []string{"dup"}, A: []int64{int64(i + 1), int64(h), int64(r.Range(1, 20)) * 1_000_000}})
			}
		}
	}
	nd := r.Range(10, 30)
	for i := 0; i < nd; i++ {
		p.Steps = append(p.Steps, core.Step{Op: "direct", A: []int64{int64(r.Intn(8)), int64(r.Intn(4)), int64(r.Intn(1 << 30)), int64(r.Pick([]int{0, 1, 5, 32, 100}))}})
	}
	return p
}

type watch struct {
	name string
	w    *arena.Watch
}

func (c c16) run(p *core.Plan, res *core.Result, spare int, poison byte, judge bool) (string, *world.World) {
	q := p.Clone()
	q.Cfg["spare"], q.Cfg["poison"] = int64(spare), int64(poison)
	w := BuildWorld(q, res, false)
	w.ReuseDecoder = p.C("reuse", 0) == 1
	world.NewPlanAdversary(w)
	watches := map[int][]watch{}
	var global []watch
	add := func(s *world.Session, name string, b []byte) {
		watches[s.ID] = append(watches[s.ID], watch{name, arena.NewWatch(name, b)})
	}
	spareClass := fmt.Sprint(spare)
	w.Observers = append(w.Observers, func(o *world.Outcome) {
		s := o.S
		if !judge {
			return
		}
		res.Evals++
		if spare > 0 {
			res.Nontrivial(fmt.Sprintf("%s/spare%s/n%d", o.Op, spareClass, len(watches[s.ID])))
		}
		for _, d := range o.Arena {
			res.Violate(fmt.Sprintf("C16/argument-written/type%d/%s", s.Type, o.Op), fmt.Sprintf("session %d, %s: %s", s.ID, o.Op, d), -1)
		}
		// earlier results of this session must be intact after this call
		for _, wt := range watches[s.ID] {
			if wt.w.Changed() {
				res.Violate(fmt.Sprintf("C16/earlier-result-changed/type%d/%s", s.Type, wt.name), fmt.Sprintf("session %d: %s, handed out earlier, changed during a later %s (first difference at byte %d)", s.ID, wt.name, o.Op, firstDiff(wt.w.Ref, wt.w.Snap)), -1)
				wt.w.Snap = append([]byte(nil), wt.w.Ref...)
			}
		}
		for _, wt := range global {
			if wt.w.Changed() {
				res.Violate("C16/earlier-result-changed/"+watchClass(wt.name), fmt.Sprintf("%s, handed out earlier, changed during a later %s of session %d (first difference at byte %d)", wt.name, o.Op, s.ID, firstDiff(wt.w.Ref, wt.w.Snap)), -1)
				wt.w.Snap = append([]byte(nil), wt.w.Ref...)
			}
		}
		for _, h := range o.Handed {
			global = append(global, watch{h.Name, arena.NewWatch(h.Name, h.Bytes)})
		}
		if len(watches[s.ID]) > 0 || len(global) > 0 {
			res.Probe("a later call ran on an object whose earlier results are watched")
		}
		if o.Err != nil || o.Panic != nil {
			if o.Op != "redeem" {
				res.Violate(fmt.Sprintf("C16/honest-%s-failed", o.Op), fmt.Sprintf("session %d: %v", s.ID, o.Err), -1)
			}
			return
		}
		switch o.Op {
		case "create":
			switch s.Type {
			case 1:
				add(s, "Request().Marshal()", s.St1.Request().Marshal())
				add(s, "Request().BlindedReq", s.St1.Request().BlindedReq)
			case 2:
				add(s, "Request().Marshal()", s.St2.Request().Marshal())
				add(s, "Request().BlindedReq", s.St2.Request().BlindedReq)
			case 5:
				add(s, "Request().Marshal()", s.St5.Request().Marshal())
				for i, b := range s.St5.Request().BlindedReq {
					add(s, fmt.Sprintf("Request().BlindedReq[%d]", i), b)
				}
			case 3:
				rq := s.St3.Request()
				add(s, "Request().Marshal()", rq.Marshal())
				add(s, "Request().RequestKey", rq.RequestKey)
				add(s, "Request().NameKeyID", rq.NameKeyID)
				add(s, "Request().EncryptedTokenRequest", rq.EncryptedTokenRequest)
				add(s, "Request().Signature", rq.Signature)
				add(s, "RequestKey()", s.St3.RequestKey())
				add(s, "ClientKey()", s.St3.ClientKey())
			}
		case "finalize":
			if s.Finals == 1 {
				for i, t := range o.Tokens {
					add(s, fmt.Sprintf("token[%d].Nonce", i), t.Nonce)
					add(s, fmt.Sprintf("token[%d].Context", i), t.Context)
					add(s, fmt.Sprintf("token[%d].KeyID", i), t.KeyID)
					add(s, fmt.Sprintf("token[%d].Authenticator", i), t.Authenticator)
					// tokens are also watched across the calls of OTHER sessions
					global = append(global, watch{fmt.Sprintf("session %d token[%d].Authenticator", s.ID, i), arena.NewWatch("", t.Authenticator)},
						watch{fmt.Sprintf("session %d token[%d].Nonce", s.ID, i), arena.NewWatch("", t.Nonce)})
				}
			} else {
				res.Probe("finalize called again on the same request state")
				// and it must give the same tokens
				for i, t := range o.Tokens {
					if i < len(s.Tokens) && !bytes.Equal(t.Marshal(), s.Tokens[i].Marshal()) {
						res.Violate(fmt.Sprintf("C16/second-finalize-differs/type%d", s.Type), fmt.Sprintf("session %d: finalizing again gives another token", s.ID), -1)
					}
				}
			}
		}
	})
	StartAll(w)
	if !w.Net.Run() {
		res.Infra = "step budget exhausted"
	}
	c.direct(p, w, res, spare, poison, judge)
	c.hostileDecode(p, w, res, spare, poison, judge)
	return w.Log.Hash(), w
}

func (c c16) Execute(p *core.Plan) *core.Result {
	res := core.NewResult()
	fp1, w := c.run(p, res, int(p.C("spare", 0)), byte(p.C("poison", 0xA5)), true)
	// second execution under another spare/poison layout and the same entropy: every result
	// (hashed into the event log) must be identical
	res2 := core.NewResult()
	fp2, _ := c.run(p, res2, int(p.C("spare2", 0)), byte(p.C("poison2", 0x3C)), false)
	res.Evals++
	if fp1 != fp2 && len(res.Violations) == 0 {
		res.Violate("C16/result-depends-on-spare-capacity", fmt.Sprintf("the same plan with the same entropy gives different results under two spare-capacity layouts (spare %d poison %#x vs spare %d poison %#x): event-log hashes %s / %s", p.C("spare", 0), p.C("poison", 0), p.C("spare2", 0), p.C("poison2", 0), fp1, fp2), -1)
	}
	res.Sample = map[string]any{"spare": p.C("spare", 0), "spare2": p.C("spare2", 0), "sessions": len(w.Order), "decoder_reuse": p.C("reuse", 0) == 1, "calls_audited": res.Evals}
	finish(w, res)
	res.Fingerprint = fp1
	return res
}

var c16curves = []elliptic.Curve{elliptic.P224(), elliptic.P256(), elliptic.P384(), elliptic.P521()}

// direct calls of the ecdsa / ed25519 functions with arena-backed arguments.
func (c c16) direct(p *core.Plan, w *world.World, res *core.Result, spare int, poison byte, judge bool) {
	for si, st := range p.Steps {
		if st.Op != "direct" {
			continue
		}
		ar := arena.New(arena.Layout{Spare: spare, Poison: poison, Guard: 0x5C})
		r := core.NewRand(uint64(st.Arg(2, 0)))
		op := int(st.Arg(0, 0))
		ctxLen := int(st.Arg(3, 0))
		name := ""
		var out []byte
		w.Ent.Begin("direct", fmt.Sprintf("step%d", si))
		switch op {
		case 0, 1, 2, 3: // ecdsa
			cv := c16curves[int(st.Arg(1, 0))%4]
			size := (cv.Params().BitSize + 7) / 8
			skb := r.Bytes(size)
			skb[0] &= 0x00
			skb[1] |= 1
			bkb := r.Bytes(size)
			bkb[0] = 0
			bkb[1] |= 1
			switch r.Intn(6) {
			case 0: // key bytes at or above the group order, or wider than it
				for i := range bkb {
					bkb[i] = 0xff
				}
			case 1:
				bkb = cv.Params().N.FillBytes(make([]byte, size))
			case 2:
				bkb = append([]byte{0x01}, bkb...)
			case 3:
				for i := range skb {
					skb[i] = 0xff
				}
			}
			sk, _ := ecdsa.CreateKey(cv, ar.Put("signing-key-bytes", skb))
			bk, _ := ecdsa.CreateKey(cv, ar.Put("blind-key-bytes", bkb))
			ctx := ar.Put("context", r.Bytes(ctxLen))
			dg := sha512.Sum384(r.Bytes(20))
			dgb := dg[:]
			if dl := []int{48, 48, 20, 32, 64, 66, 67, 100, 128}[r.Intn(9)]; dl != 48 {
				dgb = r.Bytes(dl) // digests shorter and longer than the group order
			}
			digest := ar.Put("digest", dgb)
			switch op {
			case 0:
				name = "ecdsa.BlindPublicKeyWithContext"
				pk, err := ecdsa.BlindPublicKeyWithContext(cv, &sk.PublicKey, bk, ctx)
				if err == nil {
					out = elliptic.Marshal(cv, pk.X, pk.Y)
				}
			case 1:
				name = "ecdsa.UnblindPublicKeyWithContext"
				pk, err := ecdsa.UnblindPublicKeyWithContext(cv, &sk.PublicKey, bk, ctx)
				if err == nil {
					out = elliptic.Marshal(cv, pk.X, pk.Y)
				}
			case 2:
				name = "ecdsa.BlindKeySignWithContext"
				rr, ss, err := ecdsa.BlindKeySignWithContext(entropy.Reader(), sk, bk, digest, ctx)
				if err == nil {
					out = append(rr.Bytes(), ss.Bytes()...)
				}
			case 3:
				name = "ecdsa.SignASN1+VerifyASN1"
				sig, err := ecdsa.SignASN1(entropy.Reader(), sk, digest)
				if err == nil {
					sg := ar.Put("signature", sig)
					if !ecdsa.VerifyASN1(&sk.PublicKey, digest, sg) {
						res.Violate("C16/direct/verify-own-signature", name, si)
					}
					out = sig
				}
			}
		default: // ed25519
			seed := ar.Put("seed", r.Bytes(32))
			priv := ed25519.NewKeyFromSeed(seed)
			pub := ar.Put("public-key", priv[32:])
			privA := ed25519.PrivateKey(ar.Put("private-key", priv))
			blind := ar.Put("blind", r.Bytes(32))
			ctx := ar.Put("context", r.Bytes(ctxLen))
			msg := ar.Put("message", r.Bytes(int(st.Arg(1, 0))*17))
			switch op {
			case 4:
				name = "ed25519.BlindPublicKeyWithContext"
				k, err := ed25519.BlindPublicKeyWithContext(pub, blind, ctx)
				if err == nil {
					out = k
				}
			case 5:
				name = "ed25519.UnblindPublicKeyWithContext"
				k, err := ed25519.UnblindPublicKeyWithContext(pub, blind, ctx)
				if err == nil {
					out = k
				}
			case 6:
				name = "ed25519.BlindKeySignWithContext"
				out = ed25519.BlindKeySignWithContext(privA, msg, blind, ctx)
			case 7:
				name = "ed25519.Sign+Verify"
				out = ed25519.Sign(privA, msg)
				if !ed25519.Verify(pub, msg, ar.Put("signature", out)) {
					res.Violate("C16/direct/verify-own-signature", name, si)
				}
			}
		}
		w.Log.Add("direct %s out=%s", name, core.H(out))
		if !judge {
			continue
		}
		res.Evals++
		if spare > 0 {
			res.Nontrivial(fmt.Sprintf("%s/spare%d", name, spare))
		}
		for _, d := range ar.Audit() {
			res.Violate("C16/argument-written/direct/"+name, fmt.Sprintf("%s: %s", name, d), si)
		}
	}
}

// hostileDecode feeds truncations and overshooting length prefixes of the run's honest
// messages to the decoders, with the input in an arena buffer: arguments are audited, and the
// outcome (accepted?, canonical re-encoding of what was decoded) goes into the event log, so
// that the second execution under another spare-capacity layout exposes any dependence of a
// result on bytes behind the argument.
func (c c16) hostileDecode(p *core.Plan, w *world.World, res *core.Result, spare int, poison byte, judge bool) {
	type target struct {
		name string
		base []byte
		dec  func(b []byte) (bool, []byte)
	}
	var ts []target
	cs := codecs()
	mk := func(name string, base []byte) {
		cd := cs[name]
		ts = append(ts, target{name, base, func(b []byte) (bool, []byte) {
			v, ok := cd.decode(b)
			if !ok {
				return false, nil
			}
			return true, cd.encode(v)
		}})
	}
	for _, id := range w.Order {
		s := w.Sessions[id]
		if s.ReqBytes == nil {
			continue
		}
		mk(fmt.Sprintf("Request%d", s.Type), s.ReqBytes)
		if len(s.Tokens) > 0 {
			mk(fmt.Sprintf("Token%d", s.Type), s.Tokens[0].Marshal())
		}
		if len(ts) >= 6 {
			break
		}
	}
	if len(w.I1) > 0 && len(w.I2) > 0 {
		// a generic batch: request list and response list
		w.Ent.Begin("client", "c16/batch")
		s1, e1 := type1.BasicPrivateClient{}.CreateTokenRequest([]byte("c"), make([]byte, 32), w.I1[0].KeyID, w.I1[0].Iss.TokenKey())
		s2, e2 := type2.BasicPublicClient{}.CreateTokenRequest([]byte("c"), make([]byte, 32), w.I2[0].KeyID, &w.I2[0].Key.PublicKey)
		if e1 == nil && e2 == nil {
			if br, err := batched.NewBasicClient().CreateTokenRequest([]tokens.TokenRequestWithDetails{s1.Request(), s2.Request()}); err == nil {
				wire := append([]byte(nil), br.Marshal()...)
				mk("BatchRequest", wire)
				bi := batched.NewBasicBatchedIssuer(world.Adapter1{I: w.I1[0].Iss}, world.Adapter2{I: w.I2[0].Iss})
				dec := new(batched.BatchedTokenRequest)
				w.Ent.Begin("batchissuer", "c16/batch")
				if dec.Unmarshal(wire) {
					if resp, err := bi.EvaluateBatch(dec); err == nil {
						mk("BatchResponses", resp)
					}
				}
			}
		}
	}
	for _, t := range ts {
		var inputs [][]byte
		n := len(t.base)
		for k := n - 1; k >= 0 && k >= n-12; k-- { // the last truncations: declared lengths overshoot by 1..12 bytes
			inputs = append(inputs, t.base[:k])
		}
		for k := 0; k < n && k < 12; k++ {
			inputs = append(inputs, t.base[:k])
		}
		for _, in := range inputs {
			ar := arena.New(arena.Layout{Spare: spare, Poison: poison, Guard: 0x5C})
			data := ar.Put("peer-bytes", in)
			var ok bool
			var out []byte
			pv := safely(func() { ok, out = t.dec(data) })
			if pv != nil {
				w.Log.Add("hostile-decode %s len=%d panic", t.name, len(in))
			} else {
				w.Log.Add("hostile-decode %s len=%d ok=%v out=%s", t.name, len(in), ok, core.H(out))
			}
			if !judge {
				continue
			}
			res.Evals++
			if spare > 0 {
				res.Nontrivial(fmt.Sprintf("hostile-decode/%s/spare%d", t.name, spare))
			}
			for _, d := range ar.Audit() {
				res.Violate("C16/argument-written/decode/"+t.name, d, -1)
			}
		}
	}
}

func watchClass(name string) string {
	switch {
	case strings.Contains(name, "reused type"):
		return "reused-decoder-encoding"
	case strings.Contains(name, "issuer response"):
		return "issuer-response"
	case strings.Contains(name, "token["):
		return "token-of-another-session"
	case strings.Contains(name, "origin id"):
		return "issuer-origin-id"
	case strings.Contains(name, "blinded request key"):
		return "blinded-request-key"
	}
	return "other"
}
