package props

import (
	"bytes"
	"encoding/binary"
	"fmt"
	"runtime"

	"github.com/cloudflare/pat-go/quicwire"

	"verif/internal/arena"
	"verif/internal/core"
)

// C19 — QUIC varints and length-prefixed byte strings are exact and bounds-safe.
type c19 struct{ base }

func init() { core.Register(c19{base{"C19", "exploration", 8000, 300000}}) }

func (c19) Describe() core.Description {
	return core.Description{
		Isolated:        true,
		AddressSpaceGiB: 12,
		Technique:       "deterministic simulation of a framed byte stream (the style quicwire was written for) delivered in plan-chosen segments down to one byte at a time, with corrupted length prefixes and truncated ends; the receiver parses incrementally with the real consumers while an own RFC 9000 decoder runs beside it as reference model on every prefix; append/size checked against the four class limits; arena guards and a second run under other spare-capacity contents detect dependence on bytes beyond the slice",
		Rule: "one evaluation = one consumer or appender call compared with the reference; per run a stream of 5-40 items (varint, varint-prefixed bytes, uint8-prefixed bytes, uint32, uint64) with boundary-biased values ({0,63,64,16383,16384,2^30-1,2^30,2^62-1} +-1 and uniform per class), one segmentation (whole / byte-at-a-time / random cuts), optional length-prefix corruption up to 2^62-1 and optional truncation; " +
			"non-trivial = a consumer call on a proper prefix of an item (short read) or on a corrupted length; distinct = distinct (item kind, size class, available-bytes class, verdict)",
		Real:        []string{"quicwire.AppendVarint, SizeVarint, ConsumeVarint, ConsumeVarintInt64, AppendVarintBytes, ConsumeVarintBytes, AppendUint8Bytes, ConsumeUint8Bytes, ConsumeUint32, ConsumeUint64"},
		Stub:        []string{"stream segmentation (short reads)", "length-prefix corrupter", "reference decoder/encoder written from RFC 9000 section 16", "arena"},
		Assumptions: []string{"value coverage is sampling with boundary bias, not enumeration below 2^30 (that would be bounded enumeration, another technique)", "every net-engine run additionally frames all its messages with this package (FRAMING/* oracles)"},
	}
}

var varintBoundaries = []uint64{0, 1, 62, 63, 64, 65, 16382, 16383, 16384, 16385, 1<<30 - 2, 1<<30 - 1, 1 << 30, 1<<30 + 1, 1<<62 - 2, 1<<62 - 1}

func drawVarint(r *core.Rand) uint64 {
	if r.Bool(45) {
		return varintBoundaries[r.Intn(len(varintBoundaries))]
	}
	switch r.Intn(4) {
	case 0:
		return r.U64() % 64
	case 1:
		return 64 + r.U64()%(16384-64)
	case 2:
		return 16384 + r.U64()%(1<<30-16384)
	}
	return 1<<30 + r.U64()%(1<<62-1<<30)
}

func (c c19) Generate(seed uint64, tier string, idx int) *core.Plan {
	r := core.NewRand(core.MixI(core.Mix(seed, "C19/"+tier), idx))
	p := &core.Plan{Prop: "C19", Seed: r.U64(), Tier: tier, Cfg: map[string]int64{}}
	p.Cfg["spare"] = int64(r.Pick([]int{0, 1, 7, 64}))
	p.Cfg["segmode"] = int64(r.Intn(3)) // 0 whole, 1 byte-at-a-time, 2 random cuts
	p.Cfg["cutseed"] = int64(r.Intn(1 << 30))
	n := r.Range(5, 40)
	for i := 0; i < n; i++ {
		switch r.Intn(5) {
		case 0, 1:
			p.Steps = append(p.Steps, core.Step{Op: "varint", A: []int64{int64(drawVarint(r))}})
		case 2:
			l := r.Pick([]int{0, 1, 2, 62, 63, 64, 65, 300, 16383, 16384, 16385, 70000})
			p.Steps = append(p.Steps, core.Step{Op: "vbytes", A: []int64{int64(l), int64(r.Intn(1 << 30))}})
		case 3:
			p.Steps = append(p.Steps, core.Step{Op: "u8bytes", A: []int64{int64(r.Pick([]int{0, 1, 2, 127, 254, 255})), int64(r.Intn(1 << 30))}})
		case 4:
			p.Steps = append(p.Steps, core.Step{Op: r.PickS([]string{"u32", "u64"}), A: []int64{int64(r.U64() >> 1)}})
		}
	}
	if r.Bool(40) {
		// corrupt the length prefix of one length-prefixed item to a declared length beyond the input
		p.Steps = append(p.Steps, core.Step{Op: "corruptlen", A: []int64{int64(r.Intn(n)), int64(r.Pick([]int{1, 2, 3, 4, 5, 6, 7})), int64(r.Intn(1 << 20))}})
	}
	if r.Bool(30) {
		p.Steps = append(p.Steps, core.Step{Op: "trunc", A: []int64{int64(r.Intn(1 << 20))}})
	}
	if idx == 5 {
		// once per tier: a byte string longer than 2^31 that is fully present must round-trip
		p.Steps = []core.Step{{Op: "huge", A: []int64{1<<31 + int64(r.Intn(4096))}}}
	}
	return p
}

// reference: RFC 9000 section 16, written independently
func refVarint(b []byte) (v uint64, n int) {
	if len(b) == 0 {
		return 0, -1
	}
	l := 1 << (b[0] >> 6)
	if len(b) < l {
		return 0, -1
	}
	v = uint64(b[0] & 0x3f)
	for i := 1; i < l; i++ {
		v = v<<8 | uint64(b[i])
	}
	return v, l
}

func refSize(v uint64) int {
	switch {
	case v < 1<<6:
		return 1
	case v < 1<<14:
		return 2
	case v < 1<<30:
		return 4
	}
	return 8
}

func refVarintBytes(b []byte) ([]byte, int) {
	l, n := refVarint(b)
	if n < 0 || uint64(len(b)-n) < l {
		return nil, -1
	}
	return b[n : n+int(l)], n + int(l)
}

var corruptLens = []uint64{0, 1<<62 - 1, 1 << 61, 1 << 32, 1<<31 - 1, 1 << 31, 1<<30 + 5, 1 << 40}

func sizeClass(n int) string {
	switch {
	case n < 0:
		return "short"
	case n <= 8:
		return fmt.Sprint(n)
	case n < 100:
		return "<100"
	}
	return ">=100"
}

func (c c19) Execute(p *core.Plan) *core.Result {
	res := core.NewResult()
	log := core.NewEventLog(false)
	spare := int(p.C("spare", 0))
	type item struct {
		op    string
		start int
		end   int
	}
	var stream []byte
	var items []item
	for si, st := range p.Steps {
		if st.Op != "huge" {
			continue
		}
		n := int(st.Arg(0, 1<<31))
		body := make([]byte, n) // zero pages, never written
		str := quicwire.AppendVarintBytes(make([]byte, 0, n+16), body)
		str[8], str[len(str)-1] = 0xA7, 0x7A
		got, k := quicwire.ConsumeVarintBytes(str)
		res.Evals++
		res.Nontrivial("huge/" + fmt.Sprint(n>>20) + "MiB")
		if k != len(str) || len(got) != n || got[0] != 0xA7 || got[n-1] != 0x7A {
			res.Violate("C19/huge-roundtrip", fmt.Sprintf("a %d-byte string that is fully present does not round-trip through AppendVarintBytes / ConsumeVarintBytes: n=%d (want %d), %d bytes returned", n, k, len(str), len(got)), si)
		}
		// one byte short: must be reported, not read out of bounds
		if _, k2 := quicwire.ConsumeVarintBytes(str[:len(str)-1]); k2 >= 0 {
			res.Violate("C19/huge-short", "a 2 GiB string one byte short was accepted", si)
		}
		res.Fingerprint = log.Hash()
		res.Sample = map[string]any{"huge_bytes": n}
		return res
	}
	// ---- sender: build the stream with the real appenders, checked against the reference
	for si, st := range p.Steps {
		start := len(stream)
		switch st.Op {
		case "varint":
			v := uint64(st.Arg(0, 0)) & (1<<62 - 1)
			ar := arena.New(arena.Layout{Spare: spare + 8, Poison: 0xA5, Guard: 0x5C})
			dst := ar.Put("dst", stream)
			out := quicwire.AppendVarint(dst, v)
			res.Evals++
			if !bytes.Equal(out[:len(stream)], stream) {
				res.Violate("C19/append-prefix-changed", fmt.Sprintf("AppendVarint(%d) changed the destination prefix", v), si)
			}
			if d := ar.Audit(); len(d) > 0 && !onlySpare(d) {
				res.Violate("C19/append-wrote-outside", fmt.Sprint(d), si)
			}
			got := len(out) - len(stream)
			if got != refSize(v) || quicwire.SizeVarint(v) != refSize(v) {
				res.Violate("C19/not-shortest", fmt.Sprintf("value %d: AppendVarint wrote %d bytes, SizeVarint says %d, shortest form has %d", v, got, quicwire.SizeVarint(v), refSize(v)), si)
			}
			if rv, rn := refVarint(out[len(stream):]); rv != v || rn != got {
				res.Violate("C19/append-wrong-bytes", fmt.Sprintf("AppendVarint(%d) produced bytes the reference decodes as %d (%d bytes)", v, rv, rn), si)
			}
			stream = append([]byte(nil), out...)
		case "vbytes", "u8bytes":
			body := core.NewRand(uint64(st.Arg(1, 0))).Bytes(int(st.Arg(0, 0)))
			var out []byte
			res.Evals++
			if st.Op == "vbytes" {
				out = quicwire.AppendVarintBytes(append([]byte(nil), stream...), body)
				pre := refSize(uint64(len(body)))
				if len(out)-len(stream) != pre+len(body) {
					res.Violate("C19/appendbytes-length", fmt.Sprintf("AppendVarintBytes of %d bytes wrote %d bytes", len(body), len(out)-len(stream)), si)
				}
			} else {
				out = quicwire.AppendUint8Bytes(append([]byte(nil), stream...), body)
				if len(out)-len(stream) != 1+len(body) || out[len(stream)] != byte(len(body)) {
					res.Violate("C19/appendu8-length", fmt.Sprintf("AppendUint8Bytes of %d bytes", len(body)), si)
				}
			}
			if !bytes.Equal(out[:len(stream)], stream) || !bytes.HasSuffix(out, body) {
				res.Violate("C19/appendbytes-content", "prefix or body changed", si)
			}
			stream = out
		case "u32":
			stream = binary.BigEndian.AppendUint32(stream, uint32(st.Arg(0, 0)))
		case "u64":
			stream = binary.BigEndian.AppendUint64(stream, uint64(st.Arg(0, 0)))
		default:
			continue
		}
		items = append(items, item{st.Op, start, len(stream)})
	}
	// ---- faults on the stream
	for _, st := range p.Steps {
		switch st.Op {
		case "corruptlen":
			if len(items) == 0 {
				continue
			}
			res.FaultPlanned("corrupt-length-prefix")
			// find a length-prefixed item at or after the chosen index
			for k := 0; k < len(items); k++ {
				it := items[(int(st.Arg(0, 0))+k)%len(items)]
				if it.op != "vbytes" && it.op != "u8bytes" {
					continue
				}
				if it.op == "u8bytes" {
					stream[it.start] = 255
				} else {
					// rewrite the prefix in place with the top bits of a huge declared length
					v := corruptLens[int(st.Arg(1, 0))%len(corruptLens)]
					old := 1 << (stream[it.start] >> 6)
					enc := putLen('v', v)
					ns := append(append(append([]byte(nil), stream[:it.start]...), enc...), stream[it.start+old:]...)
					stream = ns
				}
				res.FaultFired("corrupt-length-prefix", true)
				break
			}
		case "trunc":
			res.FaultPlanned("truncate-stream")
			if len(stream) > 1 {
				stream = stream[:1+int(st.Arg(0, 0))%(len(stream)-1)]
				res.FaultFired("truncate-stream", true)
			}
		}
	}
	// ---- segmentation
	var cuts []int
	switch p.C("segmode", 0) {
	case 1:
		for i := 1; i < len(stream) && i < 400; i++ {
			cuts = append(cuts, i)
		}
	case 2:
		r := core.NewRand(uint64(p.C("cutseed", 1)))
		for i, n := 0, r.Range(1, 12); i < n && len(stream) > 1; i++ {
			cuts = append(cuts, 1+r.Intn(len(stream)-1))
		}
		sortInts(cuts)
	}
	cuts = append(cuts, len(stream))
	// ---- receiver: incremental parse with the real consumers; the reference runs beside it
	ops := make([]string, len(items))
	for i, it := range items {
		ops[i] = it.op
	}
	next, off := 0, 0
	prevCut := 0
	for _, cut := range cuts {
		if cut <= prevCut {
			continue
		}
		prevCut = cut
		res.FaultFired("segment", true)
		for next < len(ops) {
			avail := stream[off:cut]
			// hand the consumer an arena-backed copy of exactly the bytes received so far,
			// twice, with different bytes in the spare capacity behind it
			var ns [2]int
			var vals [2]string
			for round := 0; round < 2; round++ {
				ar := arena.New(arena.Layout{Spare: spare, Poison: byte(0x11 + 0xCC*round), Guard: 0x5C})
				in := ar.Put("rx", avail)
				var ms0, ms1 runtime.MemStats
				runtime.ReadMemStats(&ms0)
				var n int
				var val string
				if pv := safely(func() { n, val = consume(ops[next], in) }); pv != nil {
					res.Violate("C19/panic/"+ops[next], fmt.Sprintf("%s panicked on %d available bytes (first byte %#x): %v", ops[next], len(avail), firstByte(avail), pv), -1)
					n, val = -97, "panic"
				}
				runtime.ReadMemStats(&ms1)
				if d := ms1.TotalAlloc - ms0.TotalAlloc; d > 8<<20+1024*uint64(len(avail)) {
					res.Violate("C19/allocation/"+ops[next], fmt.Sprintf("%s allocated %d bytes on %d available bytes (declared length beyond the input)", ops[next], d, len(avail)), -1)
				}
				ns[round], vals[round] = n, val
				if d := ar.Audit(); len(d) > 0 {
					res.Violate("C19/consumer-wrote", fmt.Sprintf("%s: %v", ops[next], d), -1)
				}
			}
			res.Evals++
			if ns[0] != ns[1] || vals[0] != vals[1] {
				res.Violate("C19/depends-on-bytes-beyond-slice/"+ops[next], fmt.Sprintf("%s on %d available bytes returns different results for different contents of the spare capacity", ops[next], len(avail)), -1)
			}
			rn, rval := refConsume(ops[next], avail)
			verdict := "ok"
			if rn < 0 {
				verdict = "short"
			}
			if rn < 0 || len(avail) < 16 {
				res.Nontrivial(fmt.Sprintf("%s/avail%s/%s", ops[next], sizeClass(len(avail)), verdict))
			}
			res.State(fmt.Sprintf("%s/%s/%s", ops[next], sizeClass(rn), verdict))
			log.Add("rx op=%s avail=%d n=%d", ops[next], len(avail), ns[0])
			if (ns[0] < 0) != (rn < 0) {
				res.Violate("C19/completeness/"+ops[next], fmt.Sprintf("%s on %d available bytes (first byte %#x): n=%d, reference n=%d", ops[next], len(avail), firstByte(avail), ns[0], rn), -1)
				break
			}
			if rn < 0 {
				break // need more bytes
			}
			if ns[0] != rn || vals[0] != rval {
				res.Violate("C19/value/"+ops[next], fmt.Sprintf("%s: n=%d value=%s, reference n=%d value=%s", ops[next], ns[0], vals[0], rn, rval), -1)
				break
			}
			off += rn
			next++
		}
	}
	res.Fingerprint = log.Hash()
	res.Sample = map[string]any{"items": ops, "stream_bytes": len(stream), "segments": len(cuts), "parsed_items": next}
	return res
}

func firstByte(b []byte) byte {
	if len(b) == 0 {
		return 0
	}
	return b[0]
}

func onlySpare(d []string) bool {
	for _, s := range d {
		if !bytes.Contains([]byte(s), []byte("spare capacity written")) {
			return false
		}
	}
	return true
}

func sortInts(a []int) {
	for i := 1; i < len(a); i++ {
		for j := i; j > 0 && a[j] < a[j-1]; j-- {
			a[j], a[j-1] = a[j-1], a[j]
		}
	}
}

func consume(op string, in []byte) (int, string) {
	switch op {
	case "varint":
		v, n := quicwire.ConsumeVarint(in)
		v2, n2 := quicwire.ConsumeVarintInt64(in)
		if n != n2 || (n >= 0 && int64(v) != v2) {
			return -99, "ConsumeVarintInt64 disagrees with ConsumeVarint"
		}
		return n, fmt.Sprint(v)
	case "vbytes":
		b, n := quicwire.ConsumeVarintBytes(in)
		return n, core.H(b) + fmt.Sprint(len(b))
	case "u8bytes":
		b, n := quicwire.ConsumeUint8Bytes(in)
		return n, core.H(b) + fmt.Sprint(len(b))
	case "u32":
		v, n := quicwire.ConsumeUint32(in)
		return n, fmt.Sprint(v)
	case "u64":
		v, n := quicwire.ConsumeUint64(in)
		return n, fmt.Sprint(v)
	}
	return -98, ""
}

func refConsume(op string, in []byte) (int, string) {
	switch op {
	case "varint":
		v, n := refVarint(in)
		if n < 0 {
			return -1, "0"
		}
		return n, fmt.Sprint(v)
	case "vbytes":
		b, n := refVarintBytes(in)
		if n < 0 {
			return -1, core.H(nil) + "0"
		}
		return n, core.H(b) + fmt.Sprint(len(b))
	case "u8bytes":
		if len(in) < 1 || len(in)-1 < int(in[0]) {
			return -1, core.H(nil) + "0"
		}
		return 1 + int(in[0]), core.H(in[1:1+int(in[0])]) + fmt.Sprint(int(in[0]))
	case "u32":
		if len(in) < 4 {
			return -1, "0"
		}
		return 4, fmt.Sprint(binary.BigEndian.Uint32(in))
	case "u64":
		if len(in) < 8 {
			return -1, "0"
		}
		return 8, fmt.Sprint(binary.BigEndian.Uint64(in))
	}
	return -98, ""
}
