package props

import (
	"bytes"
	"crypto/elliptic"
	"fmt"

	"verif/internal/core"
	"verif/internal/entropy"
	"verif/internal/ref"
	"verif/internal/simnet"
	"verif/internal/world"
)

// C07 — the rate-limited issuer signs only authentic, untampered requests.
type c07 struct{ base }

func init() { core.Register(c07{base{"C07", "fault_enumeration", 150, 3000}}) }

func (c07) Describe() core.Description {
	return core.Description{
		Technique: "deterministic simulation with a byzantine client/network on the hop into the rate-limited issuer: every single-bit flip of accepted requests enumerated, misrouting to an issuer with another name key, and structure-aware hostile requests built with independent primitives (crypto/ecdsa, go-hpke): unregistered/near-miss origins, re-encryption, re-signing, replaced request key, missing/half/doubled signature; oracle = independent parse + HPKE open + origin lookup + stdlib ECDSA",
		Rule: "one evaluation = one request delivered to RateLimitedIssuer.Evaluate; per run a deployment with 2 type-3 issuers (distinct name keys), 1-2 clients, 2-4 origins, 1-3 honest sessions through the attester, one enumflip over every bit of one in-flight request (quick: stride 2), one misroute, and 6-14 byzantine requests of the hostile and benign classes; " +
			"non-trivial = a request other than an untouched honest one reached Evaluate; distinct = distinct (class / field+bit) labels",
		Real:        []string{"type3.RateLimitedIssuer.Evaluate (bytes in)", "type-3 request + inner request codecs", "type-3 client and attester (honest sessions)", "ecdsa.Verify"},
		Stub:        []string{"byzantine client (crypto/ecdsa + go-hpke)", "network", "entropy", "arena", "attester cache"},
		Assumptions: []string{"the name key is re-derived by the oracle from the 32 bytes of simulated entropy the issuer consumed at construction", "a registered name followed by zero bytes unpads to the registered name and is served (not a hostile class)", "(r, N-s) is a valid signature (not a hostile class)"},
	}
}

// byzantine request classes
const (
	bzUnregistered = 1 + iota
	bzOneByteChanged
	bzTrailing01
	bzTrailingSpace
	bzPrefix
	bzEmptyUnregistered
	bzReencrypt
	bzResignOtherKey
	bzReplacedRequestKey
	bzSigAbsent
	bzSigHalf
	bzSigDoubled
	bzSignOtherContents
	bzMalformedInner
	bzAADOtherRequestKey
	bzWrongTypeField
	bzInteriorZero
	bzPortSuffix
	bzLabelPrefix
	bzHostileMax
	bzReplayedCiphertext = 50 // hostile; generated from a served request, not drawn by the generator
	// benign classes: must not be confused with hostile ones
	bzHonestEquivalent  = 100
	bzExtraPaddingBlock = 101
	bzMalleatedSig      = 102
)

// classes whose hostility consists in the origin name not being registered
var originClass = map[int]bool{bzUnregistered: true, bzOneByteChanged: true, bzTrailing01: true, bzTrailingSpace: true, bzPrefix: true, bzEmptyUnregistered: true, bzInteriorZero: true, bzPortSuffix: true, bzLabelPrefix: true}

var bzName = map[int]string{bzUnregistered: "unregistered-origin", bzOneByteChanged: "origin-one-byte-changed", bzTrailing01: "origin-trailing-0x01", bzTrailingSpace: "origin-trailing-space",
	bzPrefix: "origin-prefix", bzEmptyUnregistered: "origin-empty-unregistered", bzReencrypt: "reencrypt-to-other-name-key", bzResignOtherKey: "resign-other-key",
	bzReplacedRequestKey: "replaced-request-key-resigned", bzSigAbsent: "signature-absent", bzSigHalf: "signature-half", bzSigDoubled: "signature-doubled",
	bzSignOtherContents: "signature-over-other-contents", bzMalformedInner: "malformed-inner-request", bzAADOtherRequestKey: "aad-bound-to-other-request-key", bzWrongTypeField: "wrong-type-field",
	bzPortSuffix: "origin-registered-plus-port", bzLabelPrefix: "origin-registered-with-extra-label",
	bzInteriorZero: "origin-registered-plus-zero-byte-and-suffix", bzReplayedCiphertext: "served-ciphertext-replayed-under-another-request-key",
	bzHonestEquivalent: "byz-honest-equivalent", bzExtraPaddingBlock: "extra-zero-padding-block", bzMalleatedSig: "malleated-signature-r-N-s"}

func (c c07) Generate(seed uint64, tier string, idx int) *core.Plan {
	r := core.NewRand(core.MixI(core.Mix(seed, "C07/"+tier), idx))
	p := &core.Plan{Prop: "C07", Seed: r.U64(), Tier: tier, Cfg: map[string]int64{}}
	p.Cfg["spare"] = int64(r.Pick([]int{0, 7, 64}))
	p.Cfg["segmode"] = int64(r.Pick([]int{0, 2}))
	for i := 0; i < 2; i++ {
		p.Steps = append(p.Steps, core.Step{Op: "iss", A: []int64{3, int64((idx + i*5) % 8)}})
	}
	ncl := r.Range(1, 2)
	for i := 0; i < ncl; i++ {
		p.Steps = append(p.Steps, core.Step{Op: "client3", A: []int64{int64(r.Intn(1 << 20))}})
	}
	nor := r.Range(2, 4)
	for i := 0; i < nor; i++ {
		nameLen := r.Pick([]int{1, 5, 14, 31, 32, 33, 64, 100})
		p.Steps = append(p.Steps, core.Step{Op: "origin", A: []int64{0, int64(nameLen), int64(r.Intn(1 << 20)), int64(r.Intn(2)), int64(100 + i)}})
	}
	if r.Bool(30) {
		// the empty name registered
		p.Steps = append(p.Steps, core.Step{Op: "origin", A: []int64{0, 0, 0, 1, 200}})
		nor++
	}
	nsess := r.Range(1, 3)
	for i := 0; i < nsess; i++ {
		a := make([]int64, sAnon+1)
		a[sID], a[sType] = int64(i+1), 3
		a[sChKind], a[sChLen], a[sSeed] = int64(r.Intn(2)), int64(chLens[r.Intn(len(chLens))]), int64(r.Intn(1<<30))
		a[sClient], a[sOrigin], a[sAnon] = int64(r.Intn(ncl)), int64(r.Intn(nor)), -2
		p.Steps = append(p.Steps, core.Step{Op: "sess", A: a})
	}
	stride := int64(1)
	if tier == "quick" {
		stride = 2
	}
	if idx%3 != 2 {
		p.Steps = append(p.Steps, core.Step{Op: "fault", S: []string{"enumflip"}, A: []int64{1, world.KIssReq, stride, int64(idx % 2)}})
	} else {
		p.Steps = append(p.Steps, core.Step{Op: "fault", S: []string{"enumtrunc"}, A: []int64{1, world.KIssReq}})
		p.Steps = append(p.Steps, core.Step{Op: "fault", S: []string{"extend"}, A: []int64{1, world.KIssReq, int64(r.Pick([]int{1, 2, 96})), int64(r.Intn(256))}})
	}
	if nsess > 1 {
		p.Steps = append(p.Steps, core.Step{Op: "fault", S: []string{"misroute"}, A: []int64{2, world.KIssReq, 1}})
	}
	nbyz := r.Range(6, 14)
	for i := 0; i < nbyz; i++ {
		cls := r.Range(1, bzHostileMax-1)
		if r.Bool(25) {
			cls = r.Pick([]int{bzHonestEquivalent, bzExtraPaddingBlock, bzMalleatedSig})
		}
		p.Steps = append(p.Steps, core.Step{Op: "byz", A: []int64{int64(1000 + i), int64(cls), int64(r.Intn(nor)), int64(r.Intn(1 << 30)), int64(5+i) * 1_000_000}})
	}
	return p
}

// byzBuild assembles the byzantine request of a class for a registered origin.
func byzBuild(w *world.World, cls int, origin string, seed int64) ([]byte, error) {
	is := w.I3[0]
	r := core.NewRand(uint64(seed))
	secret := r.Bytes(48)
	secret[0] &= 0x7f
	blind := r.Bytes(48)
	blind[0] = blind[0]&0x7f | 1
	msg := r.Bytes(256)
	msg[0] = 0
	q := &ref.ByzRequest{ClientSecret: secret, Blind: blind, EncapKey: is.NameKeyBytes, TokenKeyID: is.KeyID[0], BlindedMsg: msg, PaddedOrigin: ref.PadOrigin(origin), Rand: entropy.Reader()}
	other := func() []byte {
		o := r.Bytes(48)
		o[0] &= 0x7f
		return o
	}
	_, registeredEmpty := is.Origins[""]
	switch cls {
	case bzUnregistered:
		q.PaddedOrigin = ref.PadOrigin(OriginName(seed, 5+int(seed%40)) + ".nowhere")
	case bzOneByteChanged:
		if len(origin) == 0 {
			q.PaddedOrigin = ref.PadOrigin("x")
		} else {
			b := []byte(origin)
			b[int(seed)%len(b)] ^= 0x20
			q.PaddedOrigin = ref.PadOrigin(string(b))
		}
	case bzTrailing01:
		q.PaddedOrigin = ref.PadOrigin(origin + "\x01")
	case bzTrailingSpace:
		q.PaddedOrigin = ref.PadOrigin(origin + " ")
	case bzInteriorZero:
		q.PaddedOrigin = ref.PadOrigin(origin + "\x00.attacker.test")
	case bzPortSuffix:
		q.PaddedOrigin = ref.PadOrigin(origin + ":8443")
	case bzLabelPrefix:
		q.PaddedOrigin = ref.PadOrigin("login." + origin)
	case bzPrefix:
		if len(origin) < 2 {
			q.PaddedOrigin = ref.PadOrigin(origin + "z")
		} else {
			q.PaddedOrigin = ref.PadOrigin(origin[:len(origin)-1])
		}
	case bzEmptyUnregistered:
		if registeredEmpty {
			q.PaddedOrigin = ref.PadOrigin("\x01")
		} else {
			q.PaddedOrigin = ref.PadOrigin("")
		}
	case bzReencrypt:
		q.EncapKey = w.I3[1].NameKeyBytes
	case bzResignOtherKey:
		q.SignerSecret = other()
	case bzReplacedRequestKey:
		// a valid request whose request key is then replaced by another key which re-signs:
		// the inner request stays bound (aad) to the original request key
		o := other()
		q2 := *q
		_, rk, _ := q2.Build()
		q.AADRequestKey = rk
		q.RequestKey = compressedBase(o)
		q.SignerSecret = o
	case bzSigAbsent:
		q.SigMode = 1
	case bzSigHalf:
		q.SigMode = 2
	case bzSigDoubled:
		q.SigMode = 3
	case bzSignOtherContents:
		q.SigMode = 5
	case bzMalformedInner:
		q.InnerRaw = r.Bytes(r.Pick([]int{0, 1, 100, 256, 257, 258}))
	case bzAADOtherRequestKey:
		q.AADRequestKey = compressedBase(other())
	case bzWrongTypeField:
		// built normally, type field rewritten afterwards (signature then covers other bytes)
	case bzExtraPaddingBlock:
		q.PaddedOrigin = append(ref.PadOrigin(origin), make([]byte, 32)...)
	case bzMalleatedSig:
		q.SigMode = 4
	}
	wire, _, err := q.Build()
	if err == nil && cls == bzWrongTypeField {
		wire[1] = byte(r.Pick([]int{1, 2, 5, 4}))
	}
	return wire, err
}

func (c c07) Execute(p *core.Plan) *core.Result {
	res := core.NewResult()
	w := BuildWorld(p, res, false)
	world.NewPlanAdversary(w)
	if len(w.I3) < 2 {
		res.Infra = "plan lacks the two type-3 issuers"
		return res
	}
	byzClass := map[int]int{}
	replayed := map[int]bool{}
	w.Observers = append(w.Observers, func(o *world.Outcome) {
		if o.Op != "evaluate" || o.S.Type != 3 {
			return
		}
		res.Evals++
		s := o.S
		idx := 0
		fmt.Sscanf(o.Msg.To, "issuer3/%d", &idx)
		indep, why, _ := indepIssuerCheck(w, idx, o.In)
		label := "honest"
		hostile := false
		if cls, ok := byzClass[s.ID]; ok {
			label = bzName[cls]
			hostile = cls < bzHonestEquivalent
		}
		changed := o.Msg.Orig != nil && !bytes.Equal(o.Msg.Orig, o.Msg.Payload)
		for _, l := range o.Msg.Faults {
			switch faultClass(l) {
			case "flip1":
				if changed {
					var bit int
					fmt.Sscanf(l, "flip1@%d", &bit)
					label, hostile = "flip1/"+reqField3(len(o.Msg.Orig), bit), true
				}
			case "misroute":
				label, hostile = "misroute-other-name-key", true
			case "trunc", "extend":
				if changed {
					label = faultClass(l)
				}
			}
		}
		if label != "honest" {
			res.Nontrivial(label)
		}
		if o.Panic != nil {
			res.Probe("issuer panicked on a hostile request (C03's business)")
			return
		}
		if o.OK && label == "honest" && !replayed[s.ID] && !s.Stop {
			// REPLAY: the ciphertext of a request that was just served comes back under another
			// request key, correctly signed by that key (the inner request stays bound to the
			// original request key through the HPKE associated data)
			replayed[s.ID] = true
			if rq, err := ref.ParseRLRequest(o.In); err == nil {
				sid := 2000 + s.ID
				ns := &world.Session{ID: sid, Type: 3, Iss: idx, Stop: true, Hostile: true}
				w.AddSession(ns)
				byzClass[sid] = bzReplayedCiphertext
				sec := core.NewRand(uint64(s.ID)*7919 + 3).Bytes(48)
				sec[0] &= 0x7f
				wire := []byte{0, 3}
				wire = append(wire, compressedBase(sec)...)
				wire = append(wire, rq.NameKeyID...)
				wire = append(wire, byte(len(rq.Enc)>>8), byte(len(rq.Enc)))
				wire = append(wire, rq.Enc...)
				w.Ent.Begin("byzclient", fmt.Sprintf("s%d/replay", sid))
				if sig, err := ref.SignP384Raw(sec, wire, entropy.Reader()); err == nil {
					res.FaultFired("byz:"+bzName[bzReplayedCiphertext], true)
					w.Net.Send(&simnet.Msg{Sess: sid, Kind: world.KIssReq, From: "byzclient", To: o.Msg.To, Payload: append(wire, sig...), Faults: []string{"byz:" + bzName[bzReplayedCiphertext]}}, 1_000_000)
				}
			}
		}
		if o.OK && indep && hostile && originClass[byzClass[s.ID]] {
			// the drawn near-miss name happens to be a registered name itself (e.g. the prefix of a
			// one-byte name when the empty name is registered): not hostile — an excluded draw
			res.Probe("hostile origin draw collided with a registered name (excluded)")
			hostile = false
		}
		if o.OK {
			if !indep {
				res.Violate("C07/accepted-unauthentic/"+sigLabel(label), fmt.Sprintf("issuer returned a response for a request the independent checker refuses (%s); class %s", why, label), -1)
			} else if hostile {
				res.Violate("C07/accepted-hostile/"+sigLabel(label), fmt.Sprintf("issuer returned a response for a request of hostile class %s", label), -1)
			}
			if cls := byzClass[s.ID]; cls >= bzHonestEquivalent {
				res.Probe("benign byzantine class served: " + bzName[cls])
			}
		} else {
			if o.Out != nil || o.Out2 != nil {
				res.Violate("C07/error-with-output/"+sigLabel(label), "Evaluate returned an error together with output bytes", -1)
			}
			if label == "honest" && !s.Hostile {
				res.Violate("C07/rejected-honest", fmt.Sprintf("an untouched honest request was refused: %v (independent checker: %v %s)", o.Err, indep, why), -1)
			}
			if byzClass[s.ID] == bzHonestEquivalent {
				// validates the byzantine builder itself: a mismatch here is a harness fault
				res.Infra = fmt.Sprintf("byzantine builder produced a request the issuer refuses: %v (independent checker: %v %s)", o.Err, indep, why)
			}
		}
	})
	StartAll(w)
	for _, st := range p.Steps {
		if st.Op != "byz" {
			continue
		}
		st := st
		sid, cls := int(st.Arg(0, 0)), int(st.Arg(1, 0))
		oi := int(st.Arg(2, 0))
		names := w.I3[0].OriginOrder
		if len(names) == 0 {
			continue
		}
		origin := names[oi%len(names)]
		s := &world.Session{ID: sid, Type: 3, Iss: 0, Stop: true, Hostile: true}
		w.AddSession(s)
		byzClass[sid] = cls
		w.Net.After(st.Arg(4, 0), func() {
			w.Ent.Begin("byzclient", fmt.Sprintf("s%d/build", sid))
			wire, err := byzBuild(w, cls, origin, st.Arg(3, 0))
			if err != nil {
				res.Infra = "byzantine builder: " + err.Error()
				return
			}
			res.FaultFired("byz:"+bzName[cls], true)
			w.Net.Send(&simnet.Msg{Sess: sid, Kind: world.KIssReq, From: "byzclient", To: "issuer3/0", Payload: wire, Faults: []string{"byz:" + bzName[cls]}}, 0)
		})
	}
	if !w.Net.Run() {
		res.Infra = "step budget exhausted"
	}
	res.Sample = map[string]any{"faults": faultSteps(p), "evaluate_calls": res.Evals, "registered_origins": w.I3[0].OriginOrder}
	finish(w, res)
	return res
}

// reqField3 names the field of a rate-limited request a bit falls into.
func reqField3(total, bit int) string {
	by := bit / 8
	f := func(name string, start int) string { return fmt.Sprintf("%s/bit%d", name, bit-8*start) }
	switch {
	case by < 2:
		return f("type", 0)
	case by < 51:
		return f("request-key", 2)
	case by < 83:
		return f("name-key-id", 51)
	case by < 85:
		return f("ct-length", 83)
	case by < total-96:
		if by < 85+32 {
			return f("hpke-enc", 85)
		}
		return "hpke-ct"
	}
	return f("signature", total-96)
}

// compressedBase returns the compressed P-384 encoding of secret*G.
func compressedBase(secret []byte) []byte {
	c := elliptic.P384()
	x, y := c.ScalarBaseMult(secret)
	return elliptic.MarshalCompressed(c, x, y)
}
