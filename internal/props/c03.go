package props

import (
	"crypto/elliptic"
	"crypto/sha512"
	"fmt"
	"math/big"
	"os"
	"runtime"
	"strings"
	"time"

	"github.com/cloudflare/pat-go/ecdsa"
	"github.com/cloudflare/pat-go/ed25519"
	"github.com/cloudflare/pat-go/quicwire"
	"github.com/cloudflare/pat-go/tokens"
	"github.com/cloudflare/pat-go/tokens/batched"
	"github.com/cloudflare/pat-go/tokens/type1"
	"github.com/cloudflare/pat-go/tokens/type2"
	"github.com/cloudflare/pat-go/tokens/type3"
	"github.com/cloudflare/pat-go/tokens/type5"
	"github.com/cloudflare/pat-go/util"

	"verif/internal/core"
	"verif/internal/entropy"
	"verif/internal/simnet"
	"verif/internal/world"
)

// C03 — no byte string from a peer can crash or exhaust a decoder or protocol step.
type c03 struct{ base }

func init() { core.Register(c03{base{"C03", "fault_enumeration", 600, 20000}}) }

func (c03) Describe() core.Description {
	return core.Description{
		Isolated:  true,
		Technique: "deterministic simulation with a garbage-sending peer, one OS process per group of runs under an address-space limit, write-ahead journal: every truncation of honest in-flight messages enumerated, every length/count/varint field rewritten to a boundary set (0 .. 2^62-1), extension, splicing across kinds, bit noise, random bytes; oracle = no panic, no process death, bounded CPU and allocation per handler call",
		Rule: "one evaluation = one byte string delivered to one function that consumes peer bytes (29 targets: all decoders, finalizations, evaluations/verifications of decoded values, attester request check and index computation, signature verification, quicwire consumers) while the honest sessions it was derived from are in flight; per run: one honest session of every type, then 300-700 hostile deliveries drawn per target from {every truncation, extend, empty, length-field rewrite x boundary set, type-field rewrite, flipn, splice, garbage}; " +
			"non-trivial = the delivered bytes differ from the honest message; distinct = distinct (target, mutation kind, outcome class) triples",
		Real:        []string{"every Unmarshal*/FinalizeToken*/Evaluate*/Verify*/VerifyRequest/FinalizeIndex/Consume* listed in DESIGN §4 C03", "honest issuance of all types (to obtain in-flight state)"},
		Stub:        []string{"garbage-sending peer", "network", "entropy", "arena", "allocation meter (runtime.MemStats.TotalAlloc delta)", "watchdog"},
		Assumptions: []string{"allocation bound per call: 8 MiB + 1 KiB x len(input) (honest handlers measured at 7-130 KiB)", "a handler call that runs for more than 20 s wall is a hang (honest maximum ~20 ms)", "ed25519.Verify's public key length (32) is a documented precondition and kept"},
	}
}

const kFuzz = 20

// targets
var c03Targets = []string{
	0: "UnmarshalTokenChallenge", 1: "type1.UnmarshalPrivateToken+Verify", 2: "type2.UnmarshalToken", 3: "type3.UnmarshalToken", 4: "type5.UnmarshalBatchedPrivateToken+Verify",
	5: "type1.Request.Unmarshal+Evaluate", 6: "type2.Request.Unmarshal+Evaluate", 7: "type5.Request.Unmarshal+Evaluate", 8: "type3.Request.Unmarshal+VerifyRequest", 9: "type3.Issuer.Evaluate",
	10: "type3.InnerTokenRequest.Unmarshal", 11: "type3.UnmarshalEncapKey", 12: "batched.Request.Unmarshal+EvaluateBatch", 13: "batched.UnmarshalBatchedTokenResponses",
	14: "type1.FinalizeToken", 15: "type2.FinalizeToken", 16: "type3.FinalizeToken", 17: "type5.FinalizeTokens",
	18: "VerifyRequest(peer blind)", 19: "VerifyRequest(peer client key)", 20: "FinalizeIndex(peer client key)", 21: "FinalizeIndex(peer blind)", 22: "FinalizeIndex(peer blinded request key)",
	23: "util.UnmarshalTokenKey", 24: "quicwire.Consume*", 25: "ecdsa.VerifyASN1", 26: "ecdsa.Verify(r,s)", 27: "ed25519.Verify", 28: "type1.Request.Unmarshal(reused)+Marshal",
}

// length fields of the honest base message of a target: offset, kind (v = varint, 2 = u16, 1 = u8)
type lenField struct {
	off  int
	kind byte
}

var lenBoundary = []uint64{0, 1, 2, 31, 32, 33, 63, 64, 255, 256, 16383, 16384, 65535, 1<<30 - 1, 1 << 30, 1 << 31, 1 << 32, 1 << 33, 1 << 36, 1 << 40, 1<<62 - 1}

func (c c03) Generate(seed uint64, tier string, idx int) *core.Plan {
	r := core.NewRand(core.MixI(core.Mix(seed, "C03/"+tier), idx))
	p := &core.Plan{Prop: "C03", Seed: r.U64(), Tier: tier, Cfg: map[string]int64{}}
	p.Cfg["spare"] = int64(r.Pick([]int{0, 7, 64}))
	p.Cfg["segmode"] = int64(r.Pick([]int{0, 0, 2}))
	for _, t := range []int64{1, 2, 3, 5} {
		key := int64(r.Intn(1 << 20))
		if t == 2 || t == 3 {
			key = int64(r.Intn(8))
		}
		p.Steps = append(p.Steps, core.Step{Op: "iss", A: []int64{t, key}})
	}
	p.Steps = append(p.Steps, core.Step{Op: "client3", A: []int64{int64(r.Intn(1 << 20))}})
	p.Steps = append(p.Steps, core.Step{Op: "origin", A: []int64{0, int64(r.Pick([]int{0, 5, 14, 32, 33})), int64(r.Intn(1 << 20)), 1, 100}})
	for i, t := range []int64{1, 2, 3, 5} {
		a := make([]int64, sAnon+1)
		a[sID], a[sType] = int64(i+1), t
		a[sChKind], a[sChLen], a[sSeed] = 1, int64(r.Pick([]int{40, 80, 300})), int64(r.Intn(1<<30))
		a[sBatch] = int64(r.Pick([]int{1, 2, 3, 5}))
		a[sAnon] = -2
		p.Steps = append(p.Steps, core.Step{Op: "sess", A: a})
	}
	// hostile deliveries: target focus per run, swarm style
	ntargets := len(c03Targets)
	focus := []int{idx % ntargets, (idx * 7) % ntargets, r.Intn(ntargets)}
	for _, t := range focus {
		p.Steps = append(p.Steps, core.Step{Op: "hostile", S: []string{"enumtrunc"}, A: []int64{int64(t)}})
		for li := 0; li < 3; li++ {
			for vi := range lenBoundary {
				p.Steps = append(p.Steps, core.Step{Op: "hostile", S: []string{"lenfield"}, A: []int64{int64(t), int64(li), int64(vi), int64(r.Intn(2)), int64(r.Intn(4))}})
			}
		}
		for _, k := range []int64{1, 2, 96, 4096} {
			p.Steps = append(p.Steps, core.Step{Op: "hostile", S: []string{"extend"}, A: []int64{int64(t), k, int64(r.Intn(256))}})
		}
		p.Steps = append(p.Steps, core.Step{Op: "hostile", S: []string{"empty"}, A: []int64{int64(t)}})
	}
	for _, t := range []int64{7, 12, 13, 17, 24} {
		p.Steps = append(p.Steps, core.Step{Op: "hostile", S: []string{"widetrunc"}, A: []int64{t}})
	}
	for _, t := range []int64{8, 9, 25, 26} {
		for v := int64(0); v < 7; v++ {
			p.Steps = append(p.Steps, core.Step{Op: "hostile", S: []string{"scalar"}, A: []int64{t, v, int64(r.Intn(2))}})
		}
	}
	n := r.Range(60, 160)
	for i := 0; i < n; i++ {
		t := int64(r.Intn(ntargets))
		switch r.Intn(6) {
		case 0:
			p.Steps = append(p.Steps, core.Step{Op: "hostile", S: []string{"flipn"}, A: []int64{t, int64(r.Range(1, 8)), int64(r.Intn(1 << 30))}})
		case 1:
			ln := r.Pick([]int{0, 1, 2, 3, 4, 8, 16, 33, 64, 100, 300, 600, 5000})
			p.Steps = append(p.Steps, core.Step{Op: "hostile", S: []string{"garbage"}, A: []int64{t, int64(ln), int64(r.Intn(1 << 30))}})
		case 2:
			p.Steps = append(p.Steps, core.Step{Op: "hostile", S: []string{"splice"}, A: []int64{t, int64(r.Intn(ntargets)), int64(r.Intn(1 << 16))}})
		case 3:
			p.Steps = append(p.Steps, core.Step{Op: "hostile", S: []string{"typefield"}, A: []int64{t, int64(r.Pick([]int{0, 1, 2, 3, 4, 5, 0xffff, 0x0100}))}})
		case 4:
			p.Steps = append(p.Steps, core.Step{Op: "hostile", S: []string{"setbyte"}, A: []int64{t, int64(r.Intn(1 << 16)), int64(r.Pick([]int{0, 0x3f, 0x40, 0x7f, 0x80, 0xbf, 0xc0, 0xff}))}})
		case 5:
			p.Steps = append(p.Steps, core.Step{Op: "hostile", S: []string{"lenfield"}, A: []int64{t, int64(r.Intn(3)), int64(r.Intn(len(lenBoundary))), int64(r.Intn(2)), int64(r.Intn(4))}})
		}
	}
	return p
}

type c03state struct {
	w     *world.World
	res   *core.Result
	base  map[int][]byte // honest base message per target
	lens  map[int][]lenField
	batch *batched.BasicBatchedIssuer
	st1b  *type1.BasicPrivateTokenRequestState
	st2b  *type2.BasicPublicTokenRequestState
	// ecdsa / ed25519 material
	epub    *ecdsa.PublicKey
	ehash   []byte
	edpub   ed25519.PublicKey
	edmsg   []byte
	reuse   *type1.BasicPrivateTokenRequest
	attSide [][]byte
}

func (c c03) Execute(p *core.Plan) *core.Result {
	res := core.NewResult()
	w := BuildWorld(p, res, false)
	st := &c03state{w: w, res: res, base: map[int][]byte{}, lens: map[int][]lenField{}}
	// honest phase: collect messages of every kind from live sessions
	honest := map[int]map[int][]byte{} // type -> kind -> payload
	var attSide [][]byte
	var issResp2 []byte
	w.Observers = append(w.Observers, func(o *world.Outcome) {
		if o.Msg == nil || o.Msg.Kind == kFuzz {
			return
		}
		if honest[o.S.Type] == nil {
			honest[o.S.Type] = map[int][]byte{}
		}
		honest[o.S.Type][o.Msg.Kind] = append([]byte(nil), o.Msg.Payload...)
		if o.Msg.Kind == world.KAttReq {
			attSide = o.Msg.Side
		}
		if o.Msg.Kind == world.KIssResp {
			issResp2 = o.Msg.Side[0]
		}
		if o.Panic != nil {
			// honest bytes are bytes from a peer too
			res.Violate(fmt.Sprintf("C03/panic/honest-%s/%s@%s", o.Op, panicClass(o.Panic), repoFrame(o.Stack)), fmt.Sprintf("%s panicked on an honest %d-byte message of a type-%d session (origin name %d bytes): %v", o.Op, len(o.Msg.Payload), o.S.Type, len(o.S.Origin), o.Panic), -1)
		} else if o.Err != nil {
			res.Infra = fmt.Sprintf("honest phase failed: %s: %v", o.Op, o.Err)
		}
	})
	StartAll(w)
	w.Net.Run()
	if len(res.Violations) > 0 {
		finish(w, res)
		return res
	}
	if res.Infra != "" || len(w.Sessions) < 4 {
		if res.Infra == "" {
			res.Infra = "plan lacks the four honest sessions"
		}
		return res
	}
	var s1, s2, s3, s5 *world.Session
	for _, id := range w.Order {
		s := w.Sessions[id]
		switch s.Type {
		case 1:
			s1 = s
		case 2:
			s2 = s
		case 3:
			s3 = s
		case 5:
			s5 = s
		}
	}
	if s1 == nil || s2 == nil || s3 == nil || s5 == nil || s1.St1 == nil || s2.St2 == nil || s3.St3 == nil || s5.St5 == nil ||
		len(s1.Tokens) == 0 || len(s2.Tokens) == 0 || len(s3.Tokens) == 0 || len(s5.Tokens) == 0 || attSide == nil || issResp2 == nil {
		res.Infra = "honest phase incomplete"
		return res
	}
	// generic batch: one type-1 and one type-2 request
	w.Ent.Begin("client", "batch/create")
	pub1 := w.I1[0].Iss.TokenKey()
	b1, err1 := type1.BasicPrivateClient{}.CreateTokenRequest(s1.Challenge, s1.Nonces[0], w.I1[0].KeyID, pub1)
	b2, err2 := type2.BasicPublicClient{}.CreateTokenRequest(s2.Challenge, s2.Nonces[0], w.I2[0].KeyID, &w.I2[0].Key.PublicKey)
	if err1 != nil || err2 != nil {
		res.Infra = "batch request creation failed"
		return res
	}
	st.st1b, st.st2b = &b1, &b2
	breq, err := batched.NewBasicClient().CreateTokenRequest([]tokens.TokenRequestWithDetails{b1.Request(), b2.Request()})
	if err != nil {
		res.Infra = "batch request: " + err.Error()
		return res
	}
	st.batch = batched.NewBasicBatchedIssuer(world.Adapter1{I: w.I1[0].Iss}, world.Adapter2{I: w.I2[0].Iss})
	w.Ent.Begin("batchissuer", "batch/evaluate")
	bresp, err := st.batch.EvaluateBatch(breq)
	if err != nil {
		res.Infra = "batch evaluate: " + err.Error()
		return res
	}
	// inner request plaintext (well-formed)
	inner := append([]byte{7}, make([]byte, 256)...)
	inner = append(inner, 0, 32)
	inner = append(inner, make([]byte, 32)...)
	// signatures
	w.Ent.Begin("signer", "c03/keys")
	ek, _ := ecdsa.GenerateKey(elliptic.P384(), entropy.Reader())
	dg := sha512.Sum384([]byte("c03"))
	st.epub, st.ehash = &ek.PublicKey, dg[:]
	asn1sig, _ := ecdsa.SignASN1(entropy.Reader(), ek, dg[:])
	rr, ss, _ := ecdsa.Sign(entropy.Reader(), ek, dg[:])
	raw := append(rr.FillBytes(make([]byte, 48)), ss.FillBytes(make([]byte, 48))...)
	edp, eds, _ := ed25519.GenerateKey(entropy.Reader())
	st.edpub, st.edmsg = edp, []byte("c03 message")
	edsig := ed25519.Sign(eds, st.edmsg)

	tok := func(s *world.Session) []byte { return s.Tokens[0].Marshal() }
	st.base = map[int][]byte{
		0: s1.Challenge, 1: tok(s1), 2: tok(s2), 3: tok(s3), 4: tok(s5),
		5: s1.ReqBytes, 6: s2.ReqBytes, 7: s5.ReqBytes, 8: s3.ReqBytes, 9: s3.ReqBytes,
		10: inner, 11: w.I3[0].NameKeyBytes, 12: breq.Marshal(), 13: bresp,
		14: honest[1][world.KResp], 15: honest[2][world.KResp], 16: honest[3][world.KAttResp], 17: honest[5][world.KResp],
		18: attSide[0], 19: attSide[1], 20: attSide[1], 21: attSide[0], 22: issResp2,
		23: w.I2[0].PubDER, 24: quicwire.AppendVarintBytes(quicwire.AppendVarint(nil, 1<<40), s1.ReqBytes), 25: asn1sig, 26: raw, 27: edsig, 28: s1.ReqBytes,
	}
	st.lens = map[int][]lenField{
		0: {{2, 2}, {4 + int(s1.Challenge[2])<<8 + int(s1.Challenge[3]), 1}}, 7: {{3, 'v'}}, 8: {{83, 2}}, 9: {{83, 2}}, 10: {{257, 2}}, 12: {{0, 'v'}}, 13: {{0, 'v'}}, 17: {{0, 'v'}},
		23: {{1, 1}, {2, 2}}, 24: {{0, 'v'}, {8, 'v'}}, 25: {{1, 1}, {3, 1}},
	}
	st.attSide = attSide
	for tgt := range c03Targets {
		if st.base[tgt] == nil {
			res.Infra = fmt.Sprintf("no honest base message for target %d (%s)", tgt, c03Targets[tgt])
			return res
		}
	}
	// hostile phase
	w.Custom = map[int]func(m *simnet.Msg, s *world.Session, o *world.Outcome, op string){kFuzz: st.handle}
	fz := &world.Session{ID: 9000, Type: 0, Stop: true, Hostile: true}
	w.AddSession(fz)
	n := 0
	for si, stp := range p.Steps {
		if stp.Op != "hostile" {
			continue
		}
		tgt := int(stp.Arg(0, 0))
		if tgt < 0 || tgt >= len(c03Targets) {
			continue
		}
		kind := stp.Str(0)
		res.FaultPlanned(kind)
		for vi, v := range st.mutate(kind, stp, tgt) {
			n++
			label := kind
			if kind == "enumtrunc" {
				label = fmt.Sprintf("trunc@%d", vi)
			}
			w.Net.Send(&simnet.Msg{Sess: 9000, Kind: kFuzz, From: "peer", To: "target", Payload: v, Tag: uint64(tgt), Faults: []string{label}, Orig: st.base[tgt], Meta: si}, int64(n)*100)
		}
		res.FaultFired(kind, true)
	}
	if !w.Net.Run() {
		res.Infra = "step budget exhausted"
	}
	res.Sample = map[string]any{"hostile_deliveries": n, "targets": len(c03Targets), "first_hostile": firstHostile(p)}
	finish(w, res)
	return res
}

func firstHostile(p *core.Plan) any {
	for _, s := range p.Steps {
		if s.Op == "hostile" {
			return map[string]any{"target": c03Targets[int(s.Arg(0, 0))%len(c03Targets)], "mutation": s.Str(0), "args": s.A}
		}
	}
	return nil
}

func putLen(kind byte, v uint64) []byte {
	switch kind {
	case 1:
		return []byte{byte(v)}
	case 2:
		return []byte{byte(v >> 8), byte(v)}
	}
	switch {
	case v < 1<<6:
		return []byte{byte(v)}
	case v < 1<<14:
		return []byte{0x40 | byte(v>>8), byte(v)}
	case v < 1<<30:
		return []byte{0x80 | byte(v>>24), byte(v >> 16), byte(v >> 8), byte(v)}
	}
	return []byte{0xc0 | byte(v>>56), byte(v >> 48), byte(v >> 40), byte(v >> 32), byte(v >> 24), byte(v >> 16), byte(v >> 8), byte(v)}
}

func (st *c03state) mutate(kind string, stp core.Step, tgt int) [][]byte {
	b := st.base[tgt]
	a := stp.A[1:]
	switch kind {
	case "lenfield":
		fs := st.lens[tgt]
		if len(fs) == 0 {
			// no declared length field: rewrite the first bytes as if they were one
			fs = []lenField{{0, 'v'}, {2, 2}, {3, 'v'}}
		}
		f := fs[int(stp.Arg(1, 0))%len(fs)]
		if f.off >= len(b) {
			return nil
		}
		v := lenBoundary[int(stp.Arg(2, 0))%len(lenBoundary)]
		old := 1
		switch f.kind {
		case 2:
			old = 2
		case 'v':
			old = 1 << (b[f.off] >> 6)
		}
		if f.off+old > len(b) {
			return nil
		}
		rest := b[f.off+old:]
		enc := putLen(f.kind, v)
		if w := stp.Arg(4, 0); f.kind == 'v' && w > 0 {
			// the same value in a wider (non-minimal, but legal) varint form
			width := []int{2, 4, 8}[int(w-1)%3]
			if width > len(enc) {
				e2 := make([]byte, width)
				x := v
				for k := width - 1; k >= 0; k-- {
					e2[k] = byte(x)
					x >>= 8
				}
				e2[0] = e2[0]&0x3f | map[int]byte{2: 0x40, 4: 0x80, 8: 0xc0}[width]
				enc = e2
			}
		}
		out := append(append([]byte(nil), b[:f.off]...), enc...)
		if stp.Arg(3, 0) == 1 && v < 70000 {
			// make the body agree with the declared length (zero filled / cut) — reaches the code behind the length check
			body := make([]byte, v)
			copy(body, rest)
			return [][]byte{append(out, body...)}
		}
		return [][]byte{append(out, rest...)}
	case "widetrunc":
		// the honest length re-encoded in a wider varint form, with the message cut 1..12 bytes short
		fs := st.lens[tgt]
		if len(fs) == 0 || fs[0].kind != 'v' || fs[0].off >= len(b) {
			return nil
		}
		f := fs[0]
		old := 1 << (b[f.off] >> 6)
		var cur uint64
		for k := 0; k < old && f.off+k < len(b); k++ {
			x := b[f.off+k]
			if k == 0 {
				x &= 0x3f
			}
			cur = cur<<8 | uint64(x)
		}
		var outs [][]byte
		for _, width := range []int{2, 4, 8} {
			if width <= old {
				continue
			}
			e2 := make([]byte, width)
			x := cur
			for k := width - 1; k >= 0; k-- {
				e2[k] = byte(x)
				x >>= 8
			}
			e2[0] = e2[0]&0x3f | map[int]byte{2: 0x40, 4: 0x80, 8: 0xc0}[width]
			full := append(append(append([]byte(nil), b[:f.off]...), e2...), b[f.off+old:]...)
			outs = append(outs, full)
			for cut := 1; cut <= 12 && cut < len(full); cut++ {
				outs = append(outs, full[:len(full)-cut])
			}
		}
		return outs
	case "scalar":
		// boundary values of the group order written into the scalar-carrying fields of the
		// message: fixed-width r||s (targets 26, and the signature of type-3 requests), DER (25)
		N := elliptic.P384().Params().N
		vals := []*big.Int{big.NewInt(0), big.NewInt(1), new(big.Int).Sub(N, big.NewInt(1)), N, new(big.Int).Add(N, big.NewInt(1)), new(big.Int).Lsh(big.NewInt(1), 383), new(big.Int).Sub(new(big.Int).Lsh(big.NewInt(1), 384), big.NewInt(1))}
		v := vals[int(stp.Arg(1, 0))%len(vals)].FillBytes(make([]byte, 48))
		which := int(stp.Arg(2, 0)) % 2 // 0: r, 1: s
		switch tgt {
		case 8, 9, 26:
			if len(b) < 96 {
				return nil
			}
			c := append([]byte(nil), b...)
			copy(c[len(c)-96+48*which:], v)
			return [][]byte{c}
		case 25:
			r, sv := new(big.Int), new(big.Int)
			if !parseDER(b, r, sv) {
				return nil
			}
			if which == 0 {
				r = new(big.Int).SetBytes(v)
			} else {
				sv = new(big.Int).SetBytes(v)
			}
			return [][]byte{derSig(r, sv)}
		}
		return nil
	case "typefield":
		if len(b) < 2 {
			return nil
		}
		c := append([]byte(nil), b...)
		off := 0
		if tgt == 12 && len(c) > 3 { // first request inside the batch
			off = 1 << (c[0] >> 6)
		}
		if off+2 > len(c) {
			return nil
		}
		c[off], c[off+1] = byte(stp.Arg(1, 0)>>8), byte(stp.Arg(1, 0))
		return [][]byte{c}
	case "splice":
		o := st.base[int(stp.Arg(1, 0))%len(c03Targets)]
		if len(b) == 0 || len(o) == 0 {
			return nil
		}
		cut := int(stp.Arg(2, 0))
		return [][]byte{append(append([]byte(nil), b[:cut%len(b)]...), o[cut%len(o):]...)}
	}
	return world.Mutate(kind, a, b)
}

func (st *c03state) handle(m *simnet.Msg, s *world.Session, o *world.Outcome, op string) {
	w := st.w
	tgt := int(m.Tag)
	o.Party, o.Op = "target", c03Targets[tgt]
	w.Ent.Begin("target", op)
	var ms0, ms1 runtime.MemStats
	runtime.ReadMemStats(&ms0)
	t0 := time.Now()
	wd := time.AfterFunc(20*time.Second, func() {
		fmt.Fprintf(os.Stderr, "WATCHDOG: handler %s still running after 20 s on a %d-byte input\n", c03Targets[tgt], len(m.Payload))
		os.Exit(3)
	})
	accepted := false
	guardCall(w, o, func() {
		data := w.Arena.Put("peer-bytes", m.Payload)
		accepted = st.call(tgt, data)
	})
	wd.Stop()
	el := time.Since(t0)
	runtime.ReadMemStats(&ms1)
	alloc := ms1.TotalAlloc - ms0.TotalAlloc
	st.res.Evals++
	mut := faultClass(m.Faults[0])
	outcome := "rejected"
	if accepted {
		outcome = "accepted"
	}
	if o.Panic != nil {
		outcome = "panic"
	}
	if string(m.Payload) != string(m.Orig) {
		st.res.Nontrivial(fmt.Sprintf("%d/%s/%s", tgt, mut, outcome))
	}
	st.res.State(fmt.Sprintf("%d/%s", tgt, outcome))
	w.Log.Add("fuzz tgt=%d mut=%s len=%d outcome=%s", tgt, m.Faults[0], len(m.Payload), outcome)
	if o.Panic != nil {
		st.res.Violate(fmt.Sprintf("C03/panic/%s/%s@%s", c03Targets[tgt], panicClass(o.Panic), repoFrame(o.Stack)),
			fmt.Sprintf("%s panicked on a %d-byte input (%s of the honest message): %v", c03Targets[tgt], len(m.Payload), m.Faults[0], o.Panic), m.Meta.(int))
		return
	}
	bound := uint64(8<<20) + 1024*uint64(len(m.Payload))
	if alloc > bound {
		st.res.Violate(fmt.Sprintf("C03/allocation/%s", c03Targets[tgt]),
			fmt.Sprintf("%s allocated %d bytes for a %d-byte input (%s); bound %d", c03Targets[tgt], alloc, len(m.Payload), m.Faults[0], bound), m.Meta.(int))
	}
	if el > 5*time.Second {
		st.res.Violate(fmt.Sprintf("C03/cpu/%s", c03Targets[tgt]), fmt.Sprintf("%s ran %v on a %d-byte input", c03Targets[tgt], el, len(m.Payload)), m.Meta.(int))
	}
	if len(o.Arena) > 0 {
		st.res.Probe("arena difference during a hostile call (C16's business)")
	}
}

func guardCall(w *world.World, o *world.Outcome, f func()) { w.Guard(o, f) }

func panicClass(p any) string {
	s := fmt.Sprint(p)
	for _, k := range []string{"slice bounds out of range", "index out of range", "makeslice", "nil pointer", "nil map", "out of memory", "varint too large", "invalid memory address"} {
		if strings.Contains(s, k) {
			return strings.ReplaceAll(k, " ", "-")
		}
	}
	if len(s) > 40 {
		s = s[:40]
	}
	return strings.ReplaceAll(s, " ", "-")
}

// repoFrame returns the innermost stack frame inside the repository (function name).
func repoFrame(stack string) string {
	for _, line := range strings.Split(stack, "\n") {
		if strings.HasPrefix(line, "github.com/cloudflare/pat-go/") {
			f := strings.TrimPrefix(line, "github.com/cloudflare/pat-go/")
			if i := strings.LastIndex(f, "("); i > 0 {
				f = f[:i]
			}
			return f
		}
	}
	return "?"
}

// call runs target tgt on data; the return value says whether the bytes were accepted.
func (st *c03state) call(tgt int, data []byte) bool {
	w := st.w
	side := st.attSide
	switch tgt {
	case 0:
		_, err := tokens.UnmarshalTokenChallenge(data)
		return err == nil
	case 1:
		t, err := type1.UnmarshalPrivateToken(data)
		if err != nil {
			return false
		}
		return w.I1[0].Iss.Verify(t) == nil
	case 2:
		_, err := type2.UnmarshalToken(data)
		return err == nil
	case 3:
		_, err := type3.UnmarshalToken(data)
		return err == nil
	case 4:
		t, err := type5.UnmarshalBatchedPrivateToken(data)
		if err != nil {
			return false
		}
		return w.I5[0].Iss.Verify(t) == nil
	case 5:
		r := new(type1.BasicPrivateTokenRequest)
		if !r.Unmarshal(data) {
			return false
		}
		_, err := w.I1[0].Iss.Evaluate(r)
		return err == nil
	case 6:
		r := new(type2.BasicPublicTokenRequest)
		if !r.Unmarshal(data) {
			return false
		}
		_, err := w.I2[0].Iss.Evaluate(r)
		return err == nil
	case 7:
		r := new(type5.BatchedPrivateTokenRequest)
		if !r.Unmarshal(data) {
			return false
		}
		_, err := w.I5[0].Iss.Evaluate(r)
		return err == nil
	case 8:
		r := new(type3.RateLimitedTokenRequest)
		if !r.Unmarshal(data) {
			return false
		}
		return w.Attester.VerifyRequest(*r, side[0], side[1], side[2]) == nil
	case 9:
		_, _, err := w.I3[0].Iss.Evaluate(data)
		return err == nil
	case 10:
		return new(type3.InnerTokenRequest).Unmarshal(data)
	case 11:
		_, err := type3.UnmarshalEncapKey(data)
		return err == nil
	case 12:
		r := new(batched.BatchedTokenRequest)
		if !r.Unmarshal(data) {
			return false
		}
		_, err := st.batch.EvaluateBatch(r)
		return err == nil
	case 13:
		_, err := batched.UnmarshalBatchedTokenResponses(data)
		return err == nil
	case 14:
		_, err := st.sess(1).St1.FinalizeToken(data)
		return err == nil
	case 15:
		_, err := st.sess(2).St2.FinalizeToken(data)
		return err == nil
	case 16:
		_, err := st.sess(3).St3.FinalizeToken(data)
		return err == nil
	case 17:
		_, err := st.sess(5).St5.FinalizeTokens(data)
		return err == nil
	case 18, 19:
		r := new(type3.RateLimitedTokenRequest)
		if !r.Unmarshal(st.base[8]) {
			return false
		}
		if tgt == 18 {
			return w.Attester.VerifyRequest(*r, data, side[1], side[2]) == nil
		}
		return w.Attester.VerifyRequest(*r, side[0], data, side[2]) == nil
	case 20:
		_, err := w.Attester.FinalizeIndex(data, side[0], st.base[22], side[2])
		return err == nil
	case 21:
		_, err := w.Attester.FinalizeIndex(side[1], data, st.base[22], side[2])
		return err == nil
	case 22:
		_, err := w.Attester.FinalizeIndex(side[1], side[0], data, side[2])
		return err == nil
	case 23:
		_, err := util.UnmarshalTokenKey(data)
		return err == nil
	case 24:
		_, n1 := quicwire.ConsumeVarint(data)
		_, n2 := quicwire.ConsumeVarintBytes(data)
		_, n3 := quicwire.ConsumeUint8Bytes(data)
		_, n4 := quicwire.ConsumeUint32(data)
		_, n5 := quicwire.ConsumeUint64(data)
		_, n6 := quicwire.ConsumeVarintInt64(data)
		return n1 >= 0 && n2 >= 0 && n3 >= 0 && n4 >= 0 && n5 >= 0 && n6 >= 0
	case 25:
		return ecdsa.VerifyASN1(st.epub, st.ehash, data)
	case 26:
		h := len(data) / 2
		return ecdsa.Verify(st.epub, st.ehash, new(big.Int).SetBytes(data[:h]), new(big.Int).SetBytes(data[h:]))
	case 27:
		return ed25519.Verify(st.edpub, st.edmsg, data)
	case 28:
		if st.reuse == nil {
			st.reuse = new(type1.BasicPrivateTokenRequest)
		}
		ok := st.reuse.Unmarshal(data)
		st.reuse.Marshal()
		return ok
	}
	return false
}

func (st *c03state) sess(typ int) *world.Session {
	for _, id := range st.w.Order {
		if s := st.w.Sessions[id]; s.Type == typ {
			return s
		}
	}
	return nil
}
