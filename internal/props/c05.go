package props

import (
	"crypto/sha256"
	"fmt"
	"time"

	"github.com/cloudflare/circl/oprf"
	"github.com/cloudflare/pat-go/tokens"
	"github.com/cloudflare/pat-go/tokens/batched"
	"github.com/cloudflare/pat-go/tokens/type1"
	"github.com/cloudflare/pat-go/tokens/type2"

	"verif/internal/core"
	"verif/internal/fixtures"
	"verif/internal/simnet"
	"verif/internal/world"
)

// C05 — generic batch issuance keeps order and count and isolates failures.
type c05 struct{ base }

func init() { core.Register(c05{base{"C05", "exploration", 4000, 60000}}) }

func (c05) Describe() core.Description {
	return core.Description{
		Technique: "deterministic simulation of generic batch issuance over the simulated byte network with per-slot failure injection (unknown key id, unsupported type, malformed blinded element corrupted on the wire) under varied issuer configurations; oracle = per-request standalone evaluation as executable reference model, per-slot finalization and token verification",
		Rule: "one case = one batch (sequence of slots over {type 1, type 2} x {known key, unknown truncated key id, token type the batch issuer has no issuer for, malformed blinded element}) under one issuer configuration ({type 1 only, type 2 only, both, two keys per type}); quick enumerates all compositions of length <= 3 (258 per configuration) and samples up to 8, thorough enumerates all compositions of length <= 4 (1554 per configuration) and samples up to 16; " +
			"non-trivial = the batch contains at least one failing slot next to at least one other slot; distinct = distinct (configuration, composition) pairs",
		Real:        []string{"batched.BatchedClient", "BatchedTokenRequest codec", "BasicBatchedIssuer.EvaluateBatch", "UnmarshalBatchedTokenResponses", "type1/type2 clients and issuers"},
		Stub:        []string{"batched.Issuer adapters around the real type-1/type-2 issuers", "network (malformed elements are produced by byte faults on the wire)", "entropy", "arena"},
		Assumptions: []string{"configurations with two same-type issuers sharing a truncated key id are excluded (the statement's 'a configured issuer of that token type and truncated key id' is not a function otherwise); excluded draws are counted"},
	}
}

// slot kinds: type*10 + failure  (failure 0 known key, 1 unknown key id, 2 malformed element)
// "unsupported type" arises from the configuration lacking the slot's type.

func (c c05) Generate(seed uint64, tier string, idx int) *core.Plan {
	r := core.NewRand(core.MixI(core.Mix(seed, "C05/"+tier), idx))
	p := &core.Plan{Prop: "C05", Seed: r.U64(), Tier: tier, Cfg: map[string]int64{}}
	p.Cfg["spare"] = int64(r.Pick([]int{0, 7, 64}))
	p.Cfg["segmode"] = int64(r.Pick([]int{0, 2, 3}))
	cfg := idx % 4 // 0 type1 only, 1 type2 only, 2 both, 3 two keys per type
	p.Cfg["config"] = int64(cfg)
	kinds := []int64{10, 11, 12, 20, 21, 22}
	var slots []int64
	e := idx / 4
	maxEnum := 3
	if tier == "thorough" {
		maxEnum = 4
	}
	// enumerate all compositions of length 1..maxEnum first (6 + 36 (+ 216)), then sample
	total := 0
	pow := 1
	found := false
	for l := 1; l <= maxEnum; l++ {
		pow *= 6
		if e < total+pow {
			k := e - total
			for i := 0; i < l; i++ {
				slots = append(slots, kinds[k%6])
				k /= 6
			}
			found = true
			break
		}
		total += pow
	}
	if !found {
		maxLen := 8
		if tier == "thorough" {
			maxLen = 16
		}
		n := r.Range(maxEnum+1, maxLen)
		if idx%16 == 3 {
			// long batches, mostly failing slots of one type (resources tied to failing requests)
			n = r.Range(17, 40)
			bias := kinds[1+3*r.Intn(2)+r.Intn(2)] // an unknown-key or malformed kind
			for i := 0; i < n; i++ {
				if r.Bool(80) {
					slots = append(slots, bias)
				} else {
					slots = append(slots, kinds[r.Intn(6)])
				}
			}
			slots = append(slots, bias-bias%10) // a serviceable request of that type at the end
		} else {
			for i := 0; i < n; i++ {
				slots = append(slots, kinds[r.Intn(6)])
			}
		}
	}
	for i, k := range slots {
		p.Steps = append(p.Steps, core.Step{Op: "slot", A: []int64{k, int64(r.Intn(1 << 30)), int64(chLens[r.Intn(len(chLens))]), int64(i % 2)}})
	}
	return p
}

type slot struct {
	typ, fail int
	keyIdx    int
	nonce, ch []byte
	st1       *type1.BasicPrivateTokenRequestState
	st2       *type2.BasicPublicTokenRequestState
	keyID     []byte
	reqLen    int
}

func (c c05) Execute(p *core.Plan) *core.Result {
	res := core.NewResult()
	w := world.New(p, res, false)
	cfg := int(p.C("config", 2))
	// issuer configuration
	n1, n2 := 0, 0
	switch cfg {
	case 0:
		n1 = 1
	case 1:
		n2 = 1
	case 2:
		n1, n2 = 1, 1
	case 3:
		n1, n2 = 2, 2
	}
	last := func(b []byte) byte { return b[len(b)-1] }
	used1, used2 := map[byte]bool{}, map[byte]bool{}
	for i, k := 0, int64(0); i < n1; k++ {
		is := w.AddIssuer1(k)
		if used1[last(is.KeyID)] {
			w.I1 = w.I1[:len(w.I1)-1]
			res.Probe("excluded configuration draw: two type-1 issuers with equal truncated key id")
			continue
		}
		used1[last(is.KeyID)] = true
		i++
	}
	for i, k := 0, int64(0); i < n2; k++ {
		is := w.AddIssuer2(k)
		if used2[last(is.KeyID)] {
			w.I2 = w.I2[:len(w.I2)-1]
			res.Probe("excluded configuration draw: two type-2 issuers with equal truncated key id")
			continue
		}
		used2[last(is.KeyID)] = true
		i++
	}
	var adapters []batched.Issuer
	for _, is := range w.I1 {
		adapters = append(adapters, world.Adapter1{I: is.Iss})
	}
	for _, is := range w.I2 {
		adapters = append(adapters, world.Adapter2{I: is.Iss})
	}
	batchIssuer := batched.NewBasicBatchedIssuer(adapters...)
	// REUSE: the caller's argument slice goes back to its pool: it is overwritten with issuers
	// of unrelated keys; the batch issuer must have taken what it needs
	for i := range adapters {
		if i%2 == 0 {
			k, _ := oprf.DeriveKey(oprf.SuiteP384, oprf.VerifiableMode, w.SeedBytes(fmt.Sprintf("junk1/%d", i), 48), []byte("verif"))
			adapters[i] = world.Adapter1{I: type1.NewBasicPrivateIssuer(k)}
		} else {
			adapters[i] = world.Adapter2{I: type2.NewBasicPublicIssuer(fixtures.RSA(7 - i%8))}
		}
	}
	res.FaultFired("REUSE(configuration slice)", true)

	// foreign keys for the "unknown key id" slots (not configured; truncated id differs from all configured ones)
	var foreign1 *oprf.PrivateKey
	var foreign1ID []byte
	for k := 0; ; k++ {
		key, _ := oprf.DeriveKey(oprf.SuiteP384, oprf.VerifiableMode, w.SeedBytes(fmt.Sprintf("foreign1/%d", k), 48), []byte("verif"))
		pb, _ := key.Public().MarshalBinary()
		id := sha256.Sum256(pb)
		if !used1[id[31]] {
			foreign1, foreign1ID = key, id[:]
			break
		}
	}
	var foreign2 *world.Issuer2
	for k := 7; ; k-- {
		w2 := world.New(p, core.NewResult(), false)
		is := w2.AddIssuer2(int64(k))
		if !used2[last(is.KeyID)] {
			foreign2 = is
			break
		}
	}
	w.Ent.Reset(p.Seed)

	// client: one request per slot
	var slots []*slot
	var reqs []tokens.TokenRequestWithDetails
	w.Ent.Begin("client", "batch/create")
	for si, st := range p.Steps {
		if st.Op != "slot" {
			continue
		}
		k := int(st.Arg(0, 10))
		sl := &slot{typ: k / 10, fail: k % 10, keyIdx: int(st.Arg(3, 0))}
		r := core.NewRand(uint64(st.Arg(1, 0)))
		sl.nonce, sl.ch = r.Bytes(32), r.Bytes(int(st.Arg(2, 32)))
		var err error
		switch sl.typ {
		case 1:
			pub, id := foreign1.Public(), foreign1ID
			if sl.fail != 1 && len(w.I1) > 0 {
				is := w.I1[sl.keyIdx%len(w.I1)]
				pub, id = is.Iss.TokenKey(), is.KeyID
			}
			var s1 type1.BasicPrivateTokenRequestState
			s1, err = type1.BasicPrivateClient{}.CreateTokenRequest(sl.ch, sl.nonce, id, pub)
			sl.st1, sl.keyID = &s1, id
			if err == nil {
				reqs = append(reqs, s1.Request())
				sl.reqLen = 3 + 49
			}
		case 2:
			is := foreign2
			if sl.fail != 1 && len(w.I2) > 0 {
				is = w.I2[sl.keyIdx%len(w.I2)]
			}
			var s2 type2.BasicPublicTokenRequestState
			s2, err = type2.BasicPublicClient{}.CreateTokenRequest(sl.ch, sl.nonce, is.KeyID, &is.Key.PublicKey)
			sl.st2, sl.keyID = &s2, is.KeyID
			if err == nil {
				reqs = append(reqs, s2.Request())
				sl.reqLen = 3 + 256
			}
		default:
			res.Infra = fmt.Sprintf("step %d: bad slot kind", si)
			return res
		}
		if err != nil {
			res.Infra = "slot request creation failed: " + err.Error()
			return res
		}
		slots = append(slots, sl)
	}
	if len(slots) == 0 {
		res.Infra = "plan without slots"
		return res
	}
	breq, err := batched.NewBasicClient().CreateTokenRequest(reqs)
	if err != nil {
		res.Violate("C05/client-create", err.Error(), -1)
		return res
	}
	wire := append([]byte(nil), breq.Marshal()...)
	// byte faults on the wire: malformed blinded elements
	off := 1
	if len(wire) > 0 {
		off = 1 << (wire[0] >> 6)
	}
	for _, sl := range slots {
		if sl.fail == 2 {
			el := wire[off+3 : off+sl.reqLen]
			if sl.typ == 1 {
				el[0] = 0x05 // not a valid compressed-point prefix
				res.FaultFired("malformed-element/type1-bad-point", true)
			} else {
				for i := range el {
					el[i] = 0xff // >= N for every 2048-bit modulus
				}
				res.FaultFired("malformed-element/type2-ge-modulus", true)
			}
		}
		off += sl.reqLen
	}

	hung := false
	sess := &world.Session{ID: 1, Type: 100}
	w.AddSession(sess)
	var respBytes []byte
	w.Custom = map[int]func(m *simnet.Msg, s *world.Session, o *world.Outcome, op string){
		world.KBatchReq: func(m *simnet.Msg, s *world.Session, o *world.Outcome, op string) {
			o.Party, o.Op = "batchissuer", "evaluate-batch"
			w.Ent.Begin("batchissuer", op)
			w.Guard(o, func() {
				data := w.Arena.Put("batch-request", m.Payload)
				r := new(batched.BatchedTokenRequest)
				if !r.Unmarshal(data) {
					o.Err = fmt.Errorf("batch request decode failed")
					return
				}
				// the issuer must answer: a call that does not return within 10 s is a hang (honest batches take milliseconds)
				done := make(chan struct{})
				go func() {
					defer func() {
						if pv := recover(); pv != nil {
							o.Panic = pv
						}
						close(done)
					}()
					o.Out, o.Err = batchIssuer.EvaluateBatch(r)
				}()
				select {
				case <-done:
				case <-time.After(10 * time.Second):
					hung = true
				}
			})
			if hung {
				res.Violate("C05/issuer-hang", fmt.Sprintf("EvaluateBatch did not return within 10 s for a batch of %d requests", len(slots)), -1)
				core.ExitAfterThisPlan = true
				return
			}
			w.Log.Add("evaluate-batch err=%v out=%s", o.Err != nil, core.H(o.Out))
			if o.Panic != nil {
				res.Violate("C05/issuer-panic", fmt.Sprint(o.Panic), -1)
				return
			}
			if o.Err != nil {
				res.Violate("C05/issuer-error", fmt.Sprintf("EvaluateBatch failed for the whole batch: %v", o.Err), -1)
				return
			}
			w.Net.Send(&simnet.Msg{Sess: 1, Kind: world.KBatchRsp, From: "batchissuer", To: "client", Payload: append([]byte(nil), o.Out...)}, 0)
		},
		world.KBatchRsp: func(m *simnet.Msg, s *world.Session, o *world.Outcome, op string) {
			respBytes = m.Payload
		},
	}
	w.Net.Send(&simnet.Msg{Sess: 1, Kind: world.KBatchReq, From: "client", To: "batchissuer", Payload: wire}, 0)
	if !w.Net.Run() {
		res.Infra = "step budget exhausted"
	}
	comp := ""
	nfail := 0
	for _, sl := range slots {
		comp += fmt.Sprintf("%d%d.", sl.typ, sl.fail)
	}
	res.Sample = map[string]any{"config": []string{"type1 only", "type2 only", "both", "two keys per type"}[cfg%4], "composition(type,failure)": comp, "request_bytes": len(wire), "response_bytes": len(respBytes)}
	finish(w, res)
	if len(res.Violations) > 0 || respBytes == nil {
		if respBytes == nil && len(res.Violations) == 0 {
			res.Violate("C05/no-response", "no batch response arrived", -1)
		}
		return res
	}

	// reference model: per slot, standalone evaluation by the configured issuer
	model := make([]bool, len(slots))
	off = 1 << (wire[0] >> 6)
	for i, sl := range slots {
		raw := wire[off : off+sl.reqLen]
		off += sl.reqLen
		w.Ent.Begin("model", fmt.Sprintf("slot%d", i))
		switch sl.typ {
		case 1:
			for _, is := range w.I1 {
				if last(is.KeyID) != raw[2] {
					continue
				}
				r := new(type1.BasicPrivateTokenRequest)
				if r.Unmarshal(raw) {
					if _, err := is.Iss.Evaluate(r); err == nil {
						model[i] = true
					}
				}
			}
		case 2:
			for _, is := range w.I2 {
				if last(is.KeyID) != raw[2] {
					continue
				}
				r := new(type2.BasicPublicTokenRequest)
				if r.Unmarshal(raw) {
					if _, err := is.Iss.Evaluate(r); err == nil {
						model[i] = true
					}
				}
			}
		}
		if !model[i] {
			nfail++
		}
	}
	// client side: decode the response list, finalize per slot
	var entries [][]byte
	func() {
		defer func() {
			if r := recover(); r != nil {
				err = fmt.Errorf("panic: %v", r)
			}
		}()
		entries, err = batched.UnmarshalBatchedTokenResponses(respBytes)
	}()
	res.Evals++
	if err != nil {
		res.Violate("C05/response-undecodable", fmt.Sprintf("the response list for composition %s does not decode: %v", comp, err), -1)
		return res
	}
	if len(entries) != len(slots) {
		res.Violate("C05/count", fmt.Sprintf("%d entries for %d requests (composition %s)", len(entries), len(slots), comp), -1)
		return res
	}
	for i, sl := range slots {
		res.Evals++
		present := len(entries[i]) > 0
		if present != model[i] {
			res.Violate(fmt.Sprintf("C05/presence/model-%v", model[i]), fmt.Sprintf("slot %d (type %d, failure %d) of %s: entry present=%v, reference model says %v", i, sl.typ, sl.fail, comp, present, model[i]), -1)
			continue
		}
		if !present {
			continue
		}
		var tok tokens.Token
		var ferr error
		func() {
			defer func() {
				if r := recover(); r != nil {
					ferr = fmt.Errorf("panic: %v", r)
				}
			}()
			if sl.typ == 1 {
				tok, ferr = sl.st1.FinalizeToken(entries[i])
			} else {
				tok, ferr = sl.st2.FinalizeToken(entries[i])
			}
		}()
		if ferr != nil {
			res.Violate("C05/entry-does-not-finalize", fmt.Sprintf("slot %d (type %d) of %s: entry does not finalize under its own request's state: %v", i, sl.typ, comp, ferr), -1)
			continue
		}
		s := &world.Session{Type: sl.typ, Nonces: [][]byte{sl.nonce}, Challenge: sl.ch}
		if msg := CheckTokenBinding(s, 0, tok, sl.keyID); msg != "" {
			res.Violate("C05/token-binding", fmt.Sprintf("slot %d: %s", i, msg), -1)
			continue
		}
		var verr error
		if sl.typ == 1 {
			verr = w.I1[sl.keyIdx%len(w.I1)].Iss.Verify(tok)
		} else {
			verr = world.VerifyPSS(&w.I2[sl.keyIdx%len(w.I2)].Key.PublicKey, tok)
		}
		if verr != nil {
			res.Violate("C05/token-invalid", fmt.Sprintf("slot %d: token does not verify: %v", i, verr), -1)
		}
	}
	if nfail > 0 && len(slots) > 1 {
		res.Nontrivial(fmt.Sprintf("cfg%d/%s", cfg, comp))
	}
	res.State(fmt.Sprintf("cfg%d/%s", cfg, comp))
	return res
}
