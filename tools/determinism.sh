#!/bin/bash
# Determinism self-test: for every engine, the first N quick plans are executed in fresh
# processes at GOMAXPROCS 1, 4 and 16 (REPS times each) and the per-plan fingerprints (hash of
# the canonical event log: deliveries, handler outcomes, output hashes, schedule traces) are
# diffed. Also greps the harness for map ranges.   tools/determinism.sh [N] [REPS] [ids...]
cd "$(dirname "$0")/.."
export VERIF_ROOT="$PWD" GOFLAGS=-mod=mod GOPROXY=off GOSUMDB=off GOTOOLCHAIN=local
N="${1:-40}"; REPS="${2:-2}"; shift; shift
IDS="$@"; [ -z "$IDS" ] && IDS=$(python3 -c "print(' '.join('C%02d'%i for i in range(1,21)))")
./check --build || exit 2
go build -o bin/yieldinstr ./tools/yieldinstr || exit 2
echo "map ranges / sync.Map.Range in the harness (must be empty or sorted-key helpers only):"
grep -rn "sync\.Map\|\.Range(func" internal cmd --include=*.go | head
fail=0
for id in $IDS; do
  BIN=./bin/verifctl
  if [ "$id" = "C17" ] || [ "$id" = "C01c" ] || [ "$id" = "C02c" ] || [ "$id" = "C06c" ]; then
    WORK="$HOME/.cache/verif-work/det-$$"; mkdir -p "$WORK"
    CIRCL=$(go list -m -f '{{.Dir}}' github.com/cloudflare/circl)
    ./bin/yieldinstr -repo /repo -circl "$CIRCL" -out "$WORK" >/dev/null && sed -e "s#=> /repo#=> $WORK/patgo#" go.mod > "$WORK/go.mod" && echo "replace github.com/cloudflare/circl => $WORK/circl" >> "$WORK/go.mod" && cp go.sum "$WORK/go.sum" && \
      go build -race -tags "verif verifyield" -modfile="$WORK/go.mod" -o "$WORK/verifctl-race" ./cmd/verifctl || { echo "C17: build failed"; fail=1; continue; }
    BIN="$WORK/verifctl-race"
  fi
  ref=""
  ok=1
  for g in 1 4 16; do for r in $(seq 1 $REPS); do
    out=$(GOMAXPROCS=$g GORACE="halt_on_error=0 log_path=/dev/null" $BIN fingerprints $id quick $N 2>/dev/null | awk '{print $1, $2, $3}')
    h=$(echo "$out" | sha256sum | cut -c1-16)
    if [ -z "$ref" ]; then ref="$h"; first="$out"; elif [ "$h" != "$ref" ]; then ok=0; echo "$id: DIVERGENCE at GOMAXPROCS=$g rep=$r"; diff <(echo "$first") <(echo "$out") | head -5; fi
  done; done
  [ $ok -eq 1 ] && echo "$id: $N plans x 3 GOMAXPROCS x $REPS reps identical ($ref)" || fail=1
  case "$id" in C17|C01c|C02c|C06c) rm -rf "$WORK";; esac
done
exit $fail
