// Package conc is the seeded task scheduler of the C17 engine. Tasks are real goroutines; the
// choice of who runs is not real: exactly one task runs at a time, it runs until a yield point
// at which the plan preempts it, then parks, and the dispatcher releases the task the plan
// names. The execution is therefore a deterministic function of the plan.
//
// The hand-off is deliberately invisible to the race detector: a channel or mutex hand-off
// creates a happens-before edge between every pair of tasks and the detector then reports
// nothing (measured: 0 reports with channels, 19 with this hand-off, same program and order).
// Tasks park in a raw syscall.Syscall(SYS_READ) on a pipe and are released by a raw SYS_WRITE;
// those carry no race annotations. Scheduler state shared between tasks is touched only inside
// //go:norace functions and never through maps, channels or sync primitives.
package conc

import (
	"sync"
	"syscall"
	"unsafe"

	"verif/internal/entropy"
)

const MaxTasks = 8

type Preempt struct {
	Task  int // task to preempt
	Yield int // at its Yield-th yield point (0-based, counted over the task's whole program)
	Next  int // task to run next
	// Rel makes the preemption call-relative: it fires in the task's Call-th call at the
	// Yield-th yield point counted from that call's operation boundary (site -2, which is
	// yield 0 of the call). Otherwise Yield counts over the whole program.
	Rel  bool
	Call int
}

type task struct {
	rfd, wfd int
	yields   int
	call     int // index of the call the task is in (-1 before its first operation boundary)
	inCall   int // yield points passed since that call's operation boundary
	fired    int // index of the preemption at which the task last parked
	done     bool
	started  bool
	src      *entropy.Source
	prog     func()
	parkSite int32
}

type Sched struct {
	tasks    [MaxTasks]task
	n        int
	mainR    int
	mainW    int
	current  int
	pre      []Preempt
	preUsed  []bool
	order    []int   // default order in which tasks are started / resumed
	Trace    []int32 // schedule trace: task switches (task<<24 | yield), written by dispatcher only
	SiteHits []int32 // sites at which a preemption landed
	wg       sync.WaitGroup
	noYield  int // > 0 while the running task is inside a sync.Once body (never park there)
	// Abandoned: the running task did not reach a yield point or its end within the timeout —
	// it is blocked on a lock held by a preempted task. The plan is abandoned; the process
	// must exit (its goroutines cannot be recovered).
	Abandoned bool
}

// NoYield marks entry to (+1) and exit from (-1) a region in which the running task must
// not be preempted (sync.Once bodies: parking there with the Once's mutex held would block
// every other task that needs the same initialisation).
//
//go:norace
func NoYield(d int32) {
	if s := active; s != nil {
		s.noYield += int(d)
	}
}

//go:norace
func waitReadable(fd int, timeoutMs int) bool {
	type pollfd struct {
		fd      int32
		events  int16
		revents int16
	}
	p := pollfd{fd: int32(fd), events: 1}
	for {
		n, _, e := syscall.Syscall(syscall.SYS_POLL, uintptr(unsafe.Pointer(&p)), 1, uintptr(timeoutMs))
		if e == syscall.EINTR {
			continue
		}
		return n == 1
	}
}

var active *Sched

//go:norace
func rawRead(fd int) {
	var b [1]byte
	for {
		n, _, e := syscall.Syscall(syscall.SYS_READ, uintptr(fd), uintptr(unsafe.Pointer(&b[0])), 1)
		if n == 1 {
			return
		}
		if e != syscall.EINTR && e != syscall.EAGAIN {
			panic("conc: pipe read failed")
		}
	}
}

//go:norace
func rawWrite(fd int) {
	b := [1]byte{1}
	for {
		n, _, e := syscall.Syscall(syscall.SYS_WRITE, uintptr(fd), uintptr(unsafe.Pointer(&b[0])), 1)
		if n == 1 {
			return
		}
		if e != syscall.EINTR && e != syscall.EAGAIN {
			panic("conc: pipe write failed")
		}
	}
}

func New(order []int, pre []Preempt) *Sched {
	s := &Sched{pre: pre, preUsed: make([]bool, len(pre)), order: order}
	var p [2]int
	if err := syscall.Pipe(p[:]); err != nil {
		panic(err)
	}
	s.mainR, s.mainW = p[0], p[1]
	return s
}

// AddTask registers a task program with its own entropy source. Must be called before Run.
func (s *Sched) AddTask(src *entropy.Source, prog func()) int {
	id := s.n
	var p [2]int
	if err := syscall.Pipe(p[:]); err != nil {
		panic(err)
	}
	s.tasks[id] = task{rfd: p[0], wfd: p[1], src: src, prog: prog, call: -1, fired: -1}
	s.n++
	return id
}

// CurrentSource returns the entropy source of the running task (entropy.Dispatch).
//
//go:norace
func CurrentSource() *entropy.Source {
	s := active
	if s == nil || s.current < 0 {
		return entropy.Global
	}
	return s.tasks[s.current].src
}

// Yield is the hook called at every yield point by the running task.
//
//go:norace
func Yield(site int32) {
	s := active
	if s == nil || s.current < 0 {
		return
	}
	t := &s.tasks[s.current]
	y := t.yields
	t.yields++
	if site == -2 {
		t.call++
		t.inCall = 0
	}
	yc := t.inCall
	t.inCall++
	if s.noYield > 0 {
		return
	}
	for i := range s.pre {
		p := &s.pre[i]
		if !s.preUsed[i] && p.Task == s.current && ((!p.Rel && p.Yield == y) || (p.Rel && p.Call == t.call && p.Yield == yc)) {
			s.preUsed[i] = true
			t.parkSite = site
			t.fired = i
			// park: tell the dispatcher, then block until released
			rawWrite(s.mainW)
			rawRead(t.rfd)
			return
		}
	}
}

//go:norace
func (s *Sched) taskMain(id int) {
	t := &s.tasks[id]
	rawRead(t.rfd) // wait for the first release
	t.prog()
	t.done = true
	rawWrite(s.mainW)
}

//go:norace
func (s *Sched) pick(after int, want int) int {
	if want >= 0 && want < s.n && !s.tasks[want].done {
		return want
	}
	for _, id := range s.order {
		if id < s.n && !s.tasks[id].done && id != after {
			return id
		}
	}
	if after >= 0 && !s.tasks[after].done {
		return after
	}
	return -1
}

// Run executes all tasks under the plan's schedule and returns when all have finished.
//
//go:norace
func (s *Sched) Run() {
	active = s
	s.current = -1
	for i := 0; i < s.n; i++ {
		s.wg.Add(1)
		id := i
		go func() {
			s.taskMain(id)
			s.wg.Done() // the only synchronising operation of a task: at its very end
		}()
	}
	next := s.pick(-1, -1)
	for next >= 0 {
		s.current = next
		s.Trace = append(s.Trace, int32(next)<<24|int32(s.tasks[next].yields&0xffffff))
		s.tasks[next].started = true
		rawWrite(s.tasks[next].wfd)
		if !waitReadable(s.mainR, 8000) {
			s.Abandoned = true
			return
		}
		rawRead(s.mainR) // the task parked at a preemption or finished
		cur := s.current
		want := -1
		if !s.tasks[cur].done {
			// which preemption fired? the task recorded its index before parking
			if i := s.tasks[cur].fired; i >= 0 && i < len(s.pre) {
				want = s.pre[i].Next
				s.SiteHits = append(s.SiteHits, s.tasks[cur].parkSite)
				s.tasks[cur].fired = -1
			}
		}
		s.current = -1
		next = s.pick(cur, want)
	}
	s.wg.Wait()
	active = nil
	for i := 0; i < s.n; i++ {
		syscall.Close(s.tasks[i].rfd)
		syscall.Close(s.tasks[i].wfd)
	}
	syscall.Close(s.mainR)
	syscall.Close(s.mainW)
}

// Yields returns the number of yield points task id passed.
func (s *Sched) Yields(id int) int { return s.tasks[id].yields }
