package world

import (
	"fmt"

	"verif/internal/core"
	"verif/internal/simnet"
)

// Fault steps in a plan:  {op:"fault", s:[kind], a:[session, hop, p1, p2, ...]}.
// Benign kinds: delay, dup, drop. Byte kinds: flip1, flipn, setbyte, trunc, extend, empty,
// garbage, replace, and the enumerating kinds enumflip / enumtrunc which expand one message
// into a family of variants (every bit / every length) that are all delivered.
// Routing kinds: misroute, swap.

var BenignFaults = map[string]bool{"delay": true, "dup": true, "drop": true}

type faultKey struct{ sess, hop int }

type PlanAdversary struct {
	W      *World
	faults map[faultKey][]core.Step
	used   map[*core.Step]bool
	held   map[faultKey]*simnet.Msg // swap: message waiting for its partner
}

func NewPlanAdversary(w *World) *PlanAdversary {
	a := &PlanAdversary{W: w, faults: map[faultKey][]core.Step{}, held: map[faultKey]*simnet.Msg{}}
	for _, st := range w.Plan.Steps {
		if st.Op != "fault" || len(st.A) < 2 || len(st.S) < 1 {
			continue
		}
		k := faultKey{int(st.A[0]), int(st.A[1])}
		a.faults[k] = append(a.faults[k], st)
		w.Res.FaultPlanned(st.S[0])
	}
	w.Adversary = a.Intercept
	return a
}

func clone(m *simnet.Msg) *simnet.Msg {
	c := *m
	c.ID = 0
	c.Payload = append([]byte(nil), m.Payload...)
	c.Faults = append([]string(nil), m.Faults...)
	return &c
}

// Mutate applies one byte-level fault to b and returns the family of variants it produces.
func Mutate(kind string, a []int64, b []byte) [][]byte {
	arg := func(i int, def int64) int64 {
		if i < len(a) {
			return a[i]
		}
		return def
	}
	cp := func() []byte { return append([]byte(nil), b...) }
	switch kind {
	case "flip1":
		if len(b) == 0 {
			return nil
		}
		c := cp()
		bit := int(arg(0, 0)) % (8 * len(b))
		if bit < 0 {
			bit = -bit
		}
		c[bit/8] ^= 1 << (7 - uint(bit%8))
		return [][]byte{c}
	case "flipn":
		if len(b) == 0 {
			return nil
		}
		c := cp()
		n := int(arg(0, 2))
		h := uint64(arg(1, 1))
		for i := 0; i < n; i++ {
			h = core.MixI(h, i)
			bit := int(h % uint64(8*len(b)))
			c[bit/8] ^= 1 << (7 - uint(bit%8))
		}
		return [][]byte{c}
	case "setbyte":
		if len(b) == 0 {
			return nil
		}
		c := cp()
		pos := int(arg(0, 0)) % len(b)
		if pos < 0 {
			pos = -pos
		}
		if c[pos] == byte(arg(1, 0)) {
			c[pos] ^= 0xff
		} else {
			c[pos] = byte(arg(1, 0))
		}
		return [][]byte{c}
	case "trunc":
		if len(b) == 0 {
			return nil
		}
		k := int(arg(0, 0)) % len(b)
		if k < 0 {
			k = -k
		}
		return [][]byte{append([]byte(nil), b[:k]...)}
	case "extend":
		k := int(arg(0, 1))
		c := cp()
		for i := 0; i < k; i++ {
			c = append(c, byte(arg(1, 0)))
		}
		return [][]byte{c}
	case "empty":
		return [][]byte{{}}
	case "garbage":
		r := core.NewRand(uint64(arg(1, 1)))
		return [][]byte{r.Bytes(int(arg(0, 16)))}
	case "enumflip":
		stride := int(arg(0, 1))
		if stride < 1 {
			stride = 1
		}
		off := int(arg(1, 0))
		var out [][]byte
		for bit := off % stride; bit < 8*len(b); bit += stride {
			c := cp()
			c[bit/8] ^= 1 << (7 - uint(bit%8))
			out = append(out, c)
		}
		return out
	case "enumfliphead":
		// every bit of the first arg(0) bytes (length prefixes of large messages)
		n := int(arg(0, 4))
		if n > len(b) {
			n = len(b)
		}
		var out [][]byte
		for bit := 0; bit < 8*n; bit++ {
			c := cp()
			c[bit/8] ^= 1 << (7 - uint(bit%8))
			out = append(out, c)
		}
		return out
	case "enumtrunc":
		var out [][]byte
		for k := 0; k < len(b); k++ {
			out = append(out, append([]byte(nil), b[:k]...))
		}
		return out
	case "enumt5":
		vs, _ := Type5Variants(b)
		return vs
	}
	return nil
}

// Type5Variants builds the structure-aware family for a type-5 response
// (varint length || n x 32-byte elements || 64-byte proof): every single omission, every
// single duplication and every transposition of two distinct elements (all permutations'
// generators), each with the length prefix fixed up and left as it was.
func Type5Variants(b []byte) (out [][]byte, labels []string) {
	if len(b) < 1 {
		return nil, nil
	}
	pl := 1 << (b[0] >> 6)
	if len(b) < pl {
		return nil, nil
	}
	var l uint64
	for i := 0; i < pl; i++ {
		c := b[i]
		if i == 0 {
			c &= 0x3f
		}
		l = l<<8 | uint64(c)
	}
	if uint64(len(b)-pl) < l || l%32 != 0 {
		return nil, nil
	}
	n := int(l / 32)
	elems := make([][]byte, n)
	for i := range elems {
		elems[i] = b[pl+32*i : pl+32*i+32]
	}
	proof := b[pl+int(l):]
	build := func(es [][]byte, fix bool) []byte {
		var body []byte
		for _, e := range es {
			body = append(body, e...)
		}
		var o []byte
		if fix {
			o = appendVarint(nil, uint64(len(body)))
		} else {
			o = append(o, b[:pl]...)
		}
		o = append(o, body...)
		return append(o, proof...)
	}
	for i := 0; i < n; i++ {
		es := append(append([][]byte{}, elems[:i]...), elems[i+1:]...)
		for _, fix := range []bool{true, false} {
			out = append(out, build(es, fix))
			labels = append(labels, fmt.Sprintf("t5drop@%d/fix=%v", i, fix))
		}
	}
	for i := 0; i < n; i++ {
		es := append(append(append([][]byte{}, elems[:i+1]...), elems[i]), elems[i+1:]...)
		for _, fix := range []bool{true, false} {
			out = append(out, build(es, fix))
			labels = append(labels, fmt.Sprintf("t5dup@%d/fix=%v", i, fix))
		}
	}
	cnt := 0
	for i := 0; i < n && cnt < 64; i++ {
		for j := i + 1; j < n && cnt < 64; j++ {
			if string(elems[i]) == string(elems[j]) {
				continue // a reordering of equal elements is not a reordering
			}
			es := append([][]byte{}, elems...)
			es[i], es[j] = es[j], es[i]
			out = append(out, build(es, true))
			labels = append(labels, fmt.Sprintf("t5swap@%d,%d", i, j))
			cnt++
		}
	}
	return out, labels
}

// appendVarint is the harness's own RFC 9000 §16 encoder (independent of quicwire).
func appendVarint(b []byte, v uint64) []byte {
	switch {
	case v < 1<<6:
		return append(b, byte(v))
	case v < 1<<14:
		return append(b, 0x40|byte(v>>8), byte(v))
	case v < 1<<30:
		return append(b, 0x80|byte(v>>24), byte(v>>16), byte(v>>8), byte(v))
	}
	return append(b, 0xc0|byte(v>>56), byte(v>>48), byte(v>>40), byte(v>>32), byte(v>>24), byte(v>>16), byte(v>>8), byte(v))
}

// VariantLabel describes variant i of an enumerating fault.
func VariantLabel(kind string, a []int64, i int) string {
	switch kind {
	case "enumflip":
		stride, off := 1, 0
		if len(a) > 0 && a[0] > 0 {
			stride = int(a[0])
		}
		if len(a) > 1 {
			off = int(a[1])
		}
		return fmt.Sprintf("flip1@%d", off%stride+i*stride)
	case "enumtrunc":
		return fmt.Sprintf("trunc@%d", i)
	case "enumfliphead":
		return fmt.Sprintf("flip1@%d", i)
	}
	return kind
}

func variantLabelFor(kind string, a []int64, i int, orig []byte) string {
	if kind == "enumt5" {
		_, ls := Type5Variants(orig)
		if i < len(ls) {
			return ls[i]
		}
	}
	return VariantLabel(kind, a, i)
}

func (a *PlanAdversary) Intercept(m *simnet.Msg) []Sending {
	k := faultKey{m.Sess, m.Kind}
	fs := a.faults[k]
	if len(fs) == 0 {
		return []Sending{{m, 0}}
	}
	s := a.W.Sessions[m.Sess]
	inflight := s != nil && !s.Done
	out := []Sending{{m, 0}}
	for _, st := range fs {
		kind := st.S[0]
		p := st.A[2:]
		arg := func(i int, def int64) int64 {
			if i < len(p) {
				return p[i]
			}
			return def
		}
		if !BenignFaults[kind] && s != nil {
			s.Hostile = true
		}
		switch kind {
		case "delay":
			for i := range out {
				out[i].Delay += arg(0, 5_000_000)
			}
			a.W.Res.FaultFired(kind, inflight)
		case "dup":
			c := clone(m)
			c.Faults = append(c.Faults, "dup")
			out = append(out, Sending{c, arg(0, 2_000_000)})
			a.W.Res.FaultFired(kind, inflight)
		case "drop":
			// the message is lost; the sender's retransmission stub sends it again after a
			// simulated timeout (a harness stub, not repository behaviour)
			for i := range out {
				out[i].Delay += arg(0, 50_000_000)
			}
			out[0].M.Faults = append(out[0].M.Faults, "retransmit")
			a.W.Res.FaultFired(kind, inflight)
		case "misroute":
			m.Faults = append(m.Faults, "misroute")
			var t, i int
			if n, _ := fmt.Sscanf(m.To, "issuer%d/%d", &t, &i); n == 2 {
				m.To = fmt.Sprintf("issuer%d/%d", t, arg(0, 0))
			} else {
				m.Meta = int(arg(0, 0))
			}
			a.W.Res.FaultFired(kind, inflight)
		case "swap":
			// exchange the payloads of this message and the same-hop message of session p0
			other := faultKey{int(arg(0, 0)), m.Kind}
			if h, ok := a.held[other]; ok {
				delete(a.held, other)
				h.Payload, m.Payload = m.Payload, h.Payload
				h.Side, m.Side = m.Side, h.Side
				h.Faults = append(h.Faults, "swap")
				m.Faults = append(m.Faults, "swap")
				a.W.Res.FaultFired(kind, inflight)
				if os := a.W.Sessions[other.sess]; os != nil {
					os.Hostile = true
				}
				return []Sending{{m, 0}, {h, 0}}
			}
			a.held[k] = m
			return nil
		case "replace":
			m.Orig = m.Payload
			m.Payload = core.Unhex(st.Str(1))
			m.Faults = append(m.Faults, "replace")
			a.W.Res.FaultFired(kind, inflight)
		default:
			vs := Mutate(kind, p, m.Payload)
			if vs == nil {
				continue
			}
			a.W.Res.FaultFired(kind, inflight)
			enum := kind == "enumflip" || kind == "enumtrunc" || kind == "enumt5" || kind == "enumfliphead"
			if !enum {
				m.Orig = m.Payload
				m.Payload = vs[0]
				m.Faults = append(m.Faults, kind)
				continue
			}
			for i, v := range vs {
				c := clone(m)
				c.Orig = m.Payload
				c.Payload = v
				c.Variant = i + 1
				c.Faults = append(c.Faults, variantLabelFor(kind, p, i, m.Payload))
				out = append(out, Sending{c, int64(i+1) * 10})
			}
		}
	}
	return out
}

// Flush releases messages held for a swap whose partner never came (counted as planned,
// not fired).
func (a *PlanAdversary) Flush() {
	for _, k := range sortedKeys(a.held) {
		m := a.held[k]
		delete(a.held, k)
		a.W.Net.Send(m, 0)
	}
}

func sortedKeys(m map[faultKey]*simnet.Msg) []faultKey {
	ks := make([]faultKey, 0, len(m))
	for k := range m {
		ks = append(ks, k)
	}
	for i := 1; i < len(ks); i++ {
		for j := i; j > 0 && (ks[j].sess < ks[j-1].sess || (ks[j].sess == ks[j-1].sess && ks[j].hop < ks[j-1].hop)); j-- {
			ks[j], ks[j-1] = ks[j-1], ks[j]
		}
	}
	return ks
}
